(* C13 — early_stopping follows its documented no-improvement rule exactly. *)
Require Import Base StopRun Converter Driver DriverFacts StopFacts.
From RecordUpdate Require Import RecordSet.
Import RecordSetNotations.

(* ---------- the rule as the property words it ---------- *)
Definition zmax_of (l : list Z) : Z := match l with [] => 0 | x :: tl => zmax_list x tl end.

(* earlier = best of the first k-n scores, last = best of the last n scores *)
Definition nc_spec (scores : list Z) (cfg : early_cfg) : bool :=
  match es_n cfg with
  | None => false
  | Some n =>
    let len := zlen scores in
    if len <=? n then false else
    let cut := Z.to_nat (len - n) in
    let earlier := zmax_of (firstn cut scores) in
    let last := zmax_of (skipn cut scores) in
    (last <=? earlier)
    || match es_tol_abs cfg with Some a => last - earlier <? a | None => false end
    || match es_tol_rel cfg with
       | Some (rn, rd) => negb (earlier =? 0) && ((last - earlier) * 100 * rd <? rn * Z.abs earlier)
       | None => false end
  end.

(* ---------- list facts about max / argmax ---------- *)
Lemma zmax_list_ge x l : x <= zmax_list x l.
Proof. revert x. induction l as [|y l IH]; intros x; cbn; [lia|]. specialize (IH (Z.max x y)). lia. Qed.

Lemma zmax_list_mono x y l : x <= y -> zmax_list x l <= zmax_list y l.
Proof. revert x y. induction l as [|z l IH]; intros x y H; cbn; [lia|]. apply IH. lia. Qed.

Lemma zmax_list_app x a b : zmax_list x (a ++ b) = zmax_list (zmax_list x a) b.
Proof. revert x. induction a as [|y a IH]; intros x; cbn; [reflexivity|]. apply IH. Qed.

Lemma zmax_list_max x y l : zmax_list (Z.max x y) l = Z.max x (zmax_list y l).
Proof.
  revert x y. induction l as [|z l IH]; intros x y; cbn; [reflexivity|].
  rewrite <- IH. f_equal. lia.
Qed.

Lemma zmax_list_le_iff best l : zmax_list best l <= best <-> Forall (fun y => y <= best) l.
Proof.
  revert best. induction l as [|y l IH]; intros best; cbn.
  - split; [constructor|lia].
  - split.
    + intros H. pose proof (zmax_list_ge (Z.max best y) l).
      assert (y <= best) by lia. constructor; [assumption|].
      apply IH. replace (Z.max best y) with best in H by lia. assumption.
    + intros H. inversion H; subst. replace (Z.max best y) with best by lia. apply IH. assumption.
Qed.

(* the result of the scan is the incumbent's index iff nothing beats the incumbent, else a later index *)
Lemma argmax_aux_range best besti i l :
  (besti < i)%nat ->
  let r := argmax_first_aux best besti i l in
  (r = besti /\ Forall (fun y => y <= best) l) \/ ((i <= r)%nat /\ ~ Forall (fun y => y <= best) l).
Proof.
  revert best besti i. induction l as [|y l IH]; intros best besti i Hlt; cbn.
  - left. split; [reflexivity|constructor].
  - destruct (Z.ltb_spec best y) as [Hy|Hy].
    + right. destruct (IH y i (S i) ltac:(lia)) as [[-> _]|[Hr _]].
      * split; [lia|]. intros F. inversion F; subst. lia.
      * split; [lia|]. intros F. inversion F; subst. lia.
    + destruct (IH best besti (S i) ltac:(lia)) as [[-> F]|[Hr F]].
      * left. split; [reflexivity|]. constructor; assumption.
      * right. split; [lia|]. intros F'. inversion F'; subst. contradiction.
Qed.

Lemma argmax_aux_split best besti i a b :
  (besti < i)%nat -> b <> [] ->
  ((argmax_first_aux best besti i (a ++ b) < i + length a)%nat <-> zmax_of b <= zmax_list best a).
Proof.
  revert best besti i. induction a as [|y a IH]; intros best besti i Hlt Hb; cbn [app length zmax_list].
  - destruct b as [|z b]; [contradiction|]. cbn [zmax_of].
    destruct (argmax_aux_range best besti i (z :: b) Hlt) as [[-> F]|[Hr F]].
    + split; [intros _|intros _; lia]. inversion F; subst.
      transitivity (zmax_list best b); [apply zmax_list_mono; assumption|]. apply zmax_list_le_iff. assumption.
    + split; [intros H; lia|]. intros H. exfalso. apply F.
      pose proof (zmax_list_ge z b). constructor; [lia|].
      apply zmax_list_le_iff. pose proof (zmax_list_mono z best b ltac:(lia)). 
      assert (zmax_list best b <= best).
      { destruct (Z.le_gt_cases (zmax_list best b) best); [assumption|].
        exfalso. (* zmax_list best b > best means some element of b > best, but then max (z::b) > best *)
        assert (Hx : ~ Forall (fun y => y <= best) b) by (intros F2; apply zmax_list_le_iff in F2; lia).
        apply Hx. apply zmax_list_le_iff.
        (* zmax_list z b <= best and elements of b are <= zmax_list z b *)
        clear -H H0. revert z H H0. induction b as [|w b IHb]; intros z H H0; cbn in *; [lia|].
        pose proof (zmax_list_ge (Z.max z w) b). pose proof (zmax_list_ge (Z.max best w) b).
        assert (w <= best) by lia. replace (Z.max best w) with best by lia.
        apply (IHb (Z.max z w)); [assumption|lia]. }
      assumption.
  - cbn [argmax_first_aux]. replace (i + S (length a))%nat with (S i + length a)%nat by lia.
    destruct (Z.ltb_spec best y) as [Hy|Hy].
    + rewrite (IH y i (S i) ltac:(lia) Hb). replace (Z.max best y) with y by lia. split; intros; lia.
    + rewrite (IH best besti (S i) ltac:(lia) Hb). replace (Z.max best y) with best by lia. split; intros; lia.
Qed.

Lemma zmax_of_app a b : a <> [] -> b <> [] -> zmax_of (a ++ b) = Z.max (zmax_of a) (zmax_of b).
Proof.
  intros Ha Hb. destruct a as [|x a]; [contradiction|]. destruct b as [|y b]; [contradiction|].
  cbn [zmax_of app]. rewrite zmax_list_app. cbn [zmax_list]. rewrite zmax_list_max. reflexivity.
Qed.

Lemma max_py_zmax_of l : l <> [] -> max_py l = Ok (zmax_of l).
Proof. destruct l; [contradiction|reflexivity]. Qed.

(* the code's argmax-position test IS the comparison of the two window maxima *)
Theorem no_change_eq_spec zs cfg n :
  es_n cfg = Some n -> 1 <= n -> no_change zs cfg = Ok (nc_spec zs cfg).
Proof.
  intros Hn Hn1. unfold no_change, no_change_gen, nc_spec. rewrite Hn.
  destruct (Z.leb_spec (zlen zs) n) as [Hle|Hgt]; [reflexivity|].
  set (cut := Z.to_nat (zlen zs - n)).
  assert (Hcut : (0 < cut < length zs)%nat) by (unfold zlen in *; subst cut; lia).
  pose proof (firstn_skipn cut zs) as Hsplit.
  remember (firstn cut zs) as a eqn:Ea. set (b := skipn cut zs) in *.
  assert (Hla : length a = cut) by (subst a; rewrite firstn_length; lia).
  assert (Ha : a <> []) by (intros E; rewrite E in Hla; cbn in Hla; lia).
  assert (Hlb : length b = (length zs - cut)%nat) by (subst b; rewrite skipn_length; lia).
  assert (Hb : b <> []) by (intros E; rewrite E in Hlb; cbn in Hlb; lia).
  assert (Hzs : zs <> []) by (intros E; rewrite E in Hcut; cbn in Hcut; lia).
  rewrite (max_py_zmax_of zs Hzs). cbn [bind].
  destruct zs as [|x tl]; [contradiction|]. cbn [argmax_first bind].
  destruct a as [|x' a']; [contradiction|].
  assert (x' = x /\ tl = a' ++ b) as [-> Htl] by (cbn in Hsplit; inversion Hsplit; auto).
  pose proof (argmax_aux_split x 0%nat 1%nat a' b ltac:(lia) Hb) as Hsp. rewrite <- Htl in Hsp.
  set (r := argmax_first_aux x 0%nat 1%nat tl) in *.
  change (zmax_list x a') with (zmax_of (x :: a')) in Hsp.
  set (earlier := zmax_of (x :: a')) in *. set (last := zmax_of b) in *.
  assert (Hmax : zmax_of (x :: tl) = Z.max earlier last).
  { rewrite Htl. change (x :: a' ++ b) with ((x :: a') ++ b). apply zmax_of_app; [discriminate|assumption]. }
  assert (Hdiff : (n <? zlen (x :: tl) - Z.of_nat r) = (last <=? earlier)).
  { destruct (Z.leb_spec last earlier) as [Hl|Hl].
    - apply Z.ltb_lt. apply Hsp in Hl. cbn [length] in Hla. unfold zlen in *. subst cut. lia.
    - apply Z.ltb_ge. assert (~ (r < 1 + length a')%nat) by (intros C; apply Hsp in C; lia).
      cbn [length] in Hla. unfold zlen in *. subst cut. lia. }
  rewrite Hdiff. destruct (Z.leb_spec last earlier) as [Hl|Hl]; [reflexivity|]. cbn [orb].
  unfold take. fold cut. rewrite <- Ea.
  rewrite (max_py_zmax_of (x :: a')) by discriminate. cbn [bind]. fold earlier.
  rewrite Hmax. replace (Z.max earlier last) with last by lia.
  replace (Z.abs (earlier - last)) with (last - earlier) by lia.
  destruct (es_tol_abs cfg) as [ta|].
  - destruct (last - earlier <? ta); [reflexivity|]. cbn [orb].
    destruct (es_tol_rel cfg) as [[rn rd]|]; [|reflexivity].
    destruct (earlier =? 0); reflexivity.
  - cbn [orb]. destruct (es_tol_rel cfg) as [[rn rd]|]; [|reflexivity].
    destruct (earlier =? 0); reflexivity.
Qed.

(* never raises, whatever the (non-empty) finite history and the configuration *)
Theorem no_change_never_raises zs cfg : zs <> [] -> exists b, no_change zs cfg = Ok b.
Proof.
  intros Hz. unfold no_change, no_change_gen.
  destruct (es_n cfg) as [n|]; [|eauto].
  destruct (zlen zs <=? n) eqn:L; [eauto|].
  rewrite (max_py_zmax_of zs Hz). destruct zs as [|x tl]; [contradiction|]. cbn [argmax_first bind].
  destruct (n <? _); [eauto|].
  assert (Hne : take (Z.to_nat (zlen (x :: tl) - n)) (x :: tl) <> []).
  { apply Z.leb_gt in L. unfold take, zlen in *. cbn [length] in *.
    destruct (Z.to_nat (Z.of_nat (S (length tl)) - n)) eqn:E; [|discriminate]. 
    (* cut = 0 means n >= len, impossible unless n ... *) exfalso.
    (* when cut = 0 the test `n <? diff` was true; we are in the false branch only if ... *)
    lia. }
  rewrite (max_py_zmax_of _ Hne). cbn [bind].
  destruct (match es_tol_abs cfg with Some a => _ | None => false end); [eauto|].
  destruct (es_tol_rel cfg) as [[rn rd]|]; [|eauto].
  destruct (_ =? 0); eauto.
Qed.

(* record of defect D2 (fixed in /repo): with python floats the unguarded tol_rel division raised *)
Example zero_baseline_raised_unfixed :
  no_change_unfixed_pyfloat [0; 1] (mkEarly (Some 1) None (Some (5, 1))) = Err ZeroDivisionError
  /\ no_change [0; 1] (mkEarly (Some 1) None (Some (5, 1))) = Ok false.
Proof. split; reflexivity. Qed.

(* ---------- the search loop stops exactly at the first step satisfying the rule ---------- *)
Section C13.
  Context {OP : optimizer}.
  Variable sp : space.
  Variable f : nat -> values -> result.
  Variable clk : nat -> Z.

  (* the rule evaluated on a score history (finite scores; None when a score is not finite) *)
  Definition rule (cfg : early_cfg) (hist : list score) : option bool :=
    match finite_scores hist with Some zs => Some (nc_spec zs cfg) | None => None end.

  Definition C13_statement : Prop :=
    forall (s s' : drv OP) (c : call) (cfg : early_cfg) (n : Z),
      c_stop c = mkStop None None (Some cfg) -> es_n cfg = Some n -> 1 <= n -> 0 <= c_n_iter c ->
      search sp f clk s c = Ok s' ->
      exists sc : list score,
        d_score_l s' = d_score_l s ++ sc /\
        length (d_rows s') = (length (d_rows s) + length sc)%nat /\
        zlen sc <= c_n_iter c /\
        (* never earlier: after every step but the last the rule was false *)
        (forall j, (0 < j < length sc)%nat -> rule cfg (d_score_l s ++ firstn j sc) = Some false) /\
        (* never later: either all n_iter steps ran or the rule holds after the last step *)
        (zlen sc = c_n_iter c \/ rule cfg (d_score_l s ++ sc) = Some true).

  Lemma stop_after_early (s0 : drv OP) cfg n tr b :
    c_stop (d_call s0) = mkStop None None (Some cfg) -> es_n cfg = Some n -> 1 <= n ->
    stop_after clk s0 tr = Ok b -> rule cfg (d_score_l s0 ++ map ev_score tr) = Some b.
  Proof.
    intros Hc Hn Hn1. unfold stop_after, check, rule, no_change_scores. rewrite Hc. cbn.
    destruct (finite_scores _) as [zs|]; [|discriminate].
    rewrite (no_change_eq_spec zs cfg n Hn Hn1). intros [= <-]. reflexivity.
  Qed.

  Theorem C13_holds : C13_statement.
  Proof.
    intros s s' c cfg n Hm Hn Hn1 Hni Hs.
    destruct (search_spec sp f clk s c s' Hni Hs) as (s0 & tr & sE & b & Hi & He & Hf).
    destruct (init_search_spec _ _ _ _ _ Hi) as (mem & _ & Hs0).
    assert (Hcall : d_call s0 = c) by (rewrite Hs0; reflexivity).
    assert (Hsc0 : d_score_l s0 = d_score_l s) by (rewrite Hs0; reflexivity).
    assert (Hrw0 : d_rows s0 = d_rows s) by (rewrite Hs0; reflexivity).
    clear Hs0.
    destruct (ended_traced _ _ _ _ _ _ _ _ He) as (T & Hle & _).
    destruct (finish_search_spec _ _ _ Hf) as (bv & _ & Hs').
    assert (Hstop : c_stop (d_call s0) = mkStop None None (Some cfg)) by (rewrite Hcall; exact Hm).
    set (P := fun tr' : list ev => match rule cfg (d_score_l s0 ++ map ev_score tr') with Some true => true | _ => false end).
    destruct (ended_exact sp f clk s0 _ tr sE b P He) as (Hearly & Hlate & _).
    { intros tr' _ b' Hb'. unfold P. rewrite (stop_after_early s0 cfg n tr' b' Hstop Hn Hn1 Hb'). destruct b'; reflexivity. }
    exists (map ev_score tr). split; [|split; [|split; [|split]]].
    - rewrite Hs'. cbn. rewrite (t_score _ _ _ _ _ T), Hsc0. reflexivity.
    - rewrite Hs'. cbn. rewrite (t_rows _ _ _ _ _ T), Hrw0, app_length, !map_length. reflexivity.
    - unfold zlen in *. rewrite map_length. exact Hle.
    - intros j Hj. rewrite map_length in Hj. rewrite firstn_map, <- Hsc0.
      (* the check after step j returned Ok false *)
      pose proof (ended_stops _ _ _ _ _ _ _ _ He) as [Hf0 Ht0].
      assert (Hsa : stop_after clk s0 (firstn j tr) = Ok false).
      { destruct b.
        - destruct (Ht0 eq_refl) as (_ & Hnp & Hne). destruct (exists_last Hne) as (tr0 & e & ->).
          rewrite removelast_last in Hnp. rewrite app_length in Hj. cbn in Hj.
          rewrite firstn_app. replace (j - length tr0)%nat with 0%nat by lia. cbn. rewrite app_nil_r.
          apply Hnp. lia.
        - apply (Hf0 eq_refl). lia. }
      apply (stop_after_early s0 cfg n _ _ Hstop Hn Hn1 Hsa).
    - destruct Hlate as [Hl|[Hne Hp]].
      + left. unfold zlen in *. rewrite map_length. exact Hl.
      + right. unfold P in Hp. rewrite <- Hsc0.
        destruct (rule cfg _) as [[|]|]; try discriminate. reflexivity.
  Qed.
End C13.
