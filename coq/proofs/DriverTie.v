(* DriverTie.v — the definitions GENERATED from /repo's source (generated/DriverGen.v: _stop_run.py, _progress_bar.py)
   refine the hand-written models (theories/StopRun.v; the progress bar of theories/Driver.v), for ALL arguments. *)
Require Import Base PyPrims PyPrimsQ StopRun Converter Driver DriverGen.
From RecordUpdate Require Import RecordSet.
Import RecordSetNotations.
Open Scope Z_scope.

(* ====================================================================== progress bar *)
Definition abs_pb (g : g_pbar) : pbar := mkPbar (pb_score_best_ g) (pb_pos_best g) (pb_best_since_iter_ g).

Lemma pbar_init_tie : abs_pb g_pbar_init = pbar_init.
Proof. reflexivity. Qed.

Lemma is_none_py {A} (o : option A) : py_is_none o = is_none o.
Proof. destruct o; reflexivity. Qed.

Lemma new2best_tie g s p n : exists g', g_pbar_new2best g s p n = Ok g' /\ abs_pb g' = new2best (abs_pb g) s p.
Proof.
  destruct g as [pb sb sbl cd bsi bsil nic]. unfold g_pbar_new2best, new2best, better, g_pbar_get_score_best. cbn.
  rewrite is_none_py.
  destruct (sgt s sb || is_none pb && seqb s sb); cbn; eexists; split; reflexivity.
Qed.

Ltac use_new2best :=
  match goal with |- context[g_pbar_new2best ?x ?s ?p ?n] =>
    let g' := fresh "g'" in let E := fresh "E" in let A := fresh "A" in
    destruct (new2best_tie x s p n) as [g' [E A]]; rewrite E; cbn [bind]; exists g'; split; [reflexivity|];
    rewrite A; reflexivity end.

Lemma update_lvl0_tie g s p n :
  exists g', g_pbar_update_lvl0 g s p n = Ok g' /\ abs_pb g' = pbar_update_lvl0 (abs_pb g) s p n.
Proof.
  unfold g_pbar_update_lvl0, pbar_update_lvl0. destruct g as [pb sb sbl cd bsi bsil nic]. use_new2best.
Qed.

Lemma update_lvl1_tie g s p n :
  exists g', g_pbar_update_lvl1 g s p n = Ok g' /\ abs_pb g' = pbar_update_lvl1 (abs_pb g) s p n.
Proof.
  unfold g_pbar_update_lvl1, pbar_update_lvl1, g_pbar_get_score_best, g_pbar_set_best_since_iter.
  destruct g as [pb sb sbl cd bsi bsil nic]. cbn [abs_pb pb_score_best_ pb_pos_best pb_best_since_iter_ pb_best pb_pos pb_since].
  cbn. destruct (sgt s sb) eqn:G; cbn [bind]; use_new2best.
Qed.

(* ====================================================================== _stop_run.py *)
Lemma time_exceeded_tie clk k start (mt : option Z) :
  g_time_exceeded clk k start mt =
  Ok (match mt with Some t => time_exceeded start (clk k) t | None => false end, S k).
Proof.
  unfold g_time_exceeded, time_exceeded. destruct mt as [t|]; cbn; [|reflexivity].
  destruct (t =? 0); cbn; reflexivity.
Qed.

Lemma score_exceeded_tie best m : g_score_exceeded best m = Ok (score_exceeded best m).
Proof. unfold g_score_exceeded, score_exceeded. destruct m; cbn; reflexivity. Qed.

(* ---------- Q facts for integers ---------- *)
Lemma qltb_inject a b : qltb (inject_Z a) (inject_Z b) = (a <? b).
Proof.
  unfold qltb, Qle_bool. cbn. rewrite !Z.mul_1_r.
  destruct (Z.ltb_spec a b), (Z.leb_spec b a); cbn; try reflexivity; lia.
Qed.

Lemma zlen_map {A B} (f : A -> B) l : zlen (map f l) = zlen l.
Proof. unfold zlen. rewrite map_length. reflexivity. Qed.

Lemma max_q_aux_tie m l : py_max_q_aux (inject_Z m) (map inject_Z l) = inject_Z (zmax_list m l).
Proof.
  revert m. induction l as [|x l IH]; intros m; cbn; [reflexivity|].
  rewrite qltb_inject. destruct (Z.ltb_spec m x).
  - rewrite IH. f_equal. f_equal. lia.
  - rewrite IH. f_equal. f_equal. lia.
Qed.

Lemma max_q_tie l : py_max_q (map inject_Z l) = match max_py l with Ok m => Ok (inject_Z m) | Err e => Err e end.
Proof. destruct l as [|x l]; cbn; [reflexivity|]. rewrite max_q_aux_tie. reflexivity. Qed.

Lemma argmax_q_aux_tie b bi i l :
  np_argmax_q_aux (inject_Z b) (Z.of_nat bi) (Z.of_nat i) (map inject_Z l) = Z.of_nat (argmax_first_aux b bi i l).
Proof.
  revert b bi i. induction l as [|x l IH]; intros b bi i; cbn; [reflexivity|].
  rewrite qltb_inject. replace (Z.of_nat i + 1) with (Z.of_nat (S i)) by lia.
  destruct (b <? x); apply IH.
Qed.

Lemma argmax_q_tie l :
  np_argmax_q (map inject_Z l) = match argmax_first l with Ok i => Ok (Z.of_nat i) | Err e => Err e end.
Proof. destruct l as [|x l]; cbn [map np_argmax_q argmax_first]; [reflexivity|]. f_equal. exact (argmax_q_aux_tie x 0%nat 1%nat l). Qed.

Lemma slice_to_map (n : Z) (l : list Z) : 0 <= n ->
  py_slice_to n (map inject_Z l) = map inject_Z (take (Z.to_nat n) l).
Proof.
  intros H. unfold py_slice_to, py_norm_bound, take. destruct (Z.ltb_spec n 0); [lia|]. rewrite firstn_map. reflexivity.
Qed.

Lemma Qabs_inject z : Qabs (inject_Z z) = inject_Z (Z.abs z).
Proof. reflexivity. Qed.

Lemma Qminus_inject a b : Qminus (inject_Z a) (inject_Z b) == inject_Z (a - b).
Proof. unfold Qminus, Qplus, Qopp, Qeq, inject_Z. cbn. lia. Qed.

Lemma qltb_compat a a' b : a == a' -> qltb a b = qltb a' b.
Proof.
  intros H. unfold qltb. f_equal.
  destruct (Qle_bool b a) eqn:E, (Qle_bool b a') eqn:E'; try reflexivity.
  - apply Qle_bool_iff in E. rewrite H in E. apply Qle_bool_iff in E. congruence.
  - apply Qle_bool_iff in E'. rewrite <- H in E'. apply Qle_bool_iff in E'. congruence.
Qed.

Lemma abs_test_tie mf ms a :
  qltb (Qabs (Qminus (inject_Z mf) (inject_Z ms))) (inject_Z a) = (Z.abs (mf - ms) <? a).
Proof.
  rewrite (qltb_compat _ (inject_Z (Z.abs (mf - ms)))).
  - apply qltb_inject.
  - rewrite Qminus_inject. rewrite Qabs_inject. reflexivity.
Qed.

Lemma Qeq_bool_inject0 z : Qeq_bool (inject_Z z) (inject_Z 0) = (z =? 0).
Proof.
  unfold Qeq_bool, inject_Z. cbn. rewrite Z.mul_1_r. destruct (Z.eqb_spec z 0) as [->|H]; [reflexivity|].
  destruct (Zeq_bool z 0) eqn:E; [apply Zeq_bool_eq in E; contradiction|reflexivity].
Qed.

(* ((ms - mf) / |mf|) * 100 < rn/rd   <->   (ms - mf) * 100 * rd < rn * |mf|      (mf <> 0, rd > 0) *)
Lemma rel_test_tie ms mf rn rd : mf <> 0 -> 0 < rd ->
  qltb (Qmult (Qminus (inject_Z ms) (inject_Z mf) / Qabs (inject_Z mf)) (inject_Z 100)) (rn # Z.to_pos rd)
  = ((ms - mf) * 100 * rd <? rn * Z.abs mf).
Proof.
  intros Hmf Hrd.
  assert (Hpos : 0 < Z.abs mf) by lia.
  set (d := ms - mf). set (am := Z.abs mf) in *.
  assert (E : Qmult (Qminus (inject_Z ms) (inject_Z mf) / Qabs (inject_Z mf)) (inject_Z 100) == (d * 100) # (Z.to_pos am)).
  { rewrite Qminus_inject, Qabs_inject. fold d am.
    unfold Qdiv, Qmult, Qinv, inject_Z, Qeq. cbn.
    destruct am as [|pa|pa] eqn:Ea; try lia. cbn. lia. }
  rewrite (qltb_compat _ _ _ E).
  unfold qltb, Qle_bool. cbn. rewrite !Z2Pos.id by lia.
  destruct (Z.ltb_spec (d * 100 * rd) (rn * am)), (Z.leb_spec (rn * am) (d * 100 * rd)); cbn; try reflexivity; lia.
Qed.

(* the Python dictionaries that flatten to a model configuration: an absent tolerance key or a key with value None *)
Definition early_of (c : early_cfg) (pa pr : bool) : g_early :=
  mkGEarly (es_n c)
    (match es_tol_abs c with Some a => Some (Some (inject_Z a)) | None => if pa then Some None else None end)
    (match es_tol_rel c with Some (rn, rd) => Some (Some (rn # Z.to_pos rd)) | None => if pr then Some None else None end).

Definition rel_wf (c : early_cfg) : Prop := forall rn rd, es_tol_rel c = Some (rn, rd) -> 0 < rd.

Lemma res_bind_ok {A B} (r : res A) (k : A -> res B) a : r = Ok a -> bind r k = k a.
Proof. intros ->. reflexivity. Qed.

Theorem no_change_tie zs c pa pr : rel_wf c ->
  g_no_change (map inject_Z zs) (early_of c pa pr) = no_change zs c.
Proof.
  intros WF. unfold g_no_change, no_change, no_change_gen, early_of. cbn [ge_n ge_tol_abs ge_tol_rel].
  destruct (es_n c) as [n|]; cbn [py_is_none py_dict_get bind]; [|reflexivity].
  rewrite zlen_map. destruct (zlen zs <=? n) eqn:Hlen; [reflexivity|]. apply Z.leb_gt in Hlen.
  rewrite max_q_tie. destruct (max_py zs) as [ms|e]; cbn [bind]; [|reflexivity].
  rewrite argmax_q_tie. destruct (argmax_first zs) as [mi|e]; cbn [bind]; [|reflexivity].
  destruct (n <? zlen zs - Z.of_nat mi); [reflexivity|].
  rewrite slice_to_map by lia.
  rewrite max_q_tie. destruct (max_py (take (Z.to_nat (zlen zs - n)) zs)) as [mf|e]; cbn [bind]; [|reflexivity].
  assert (REL : forall (b : bool),
    (do t <- (if negb (py_is_none (match es_tol_rel c with Some (rn, rd) => Some (Some (rn # Z.to_pos rd)) | None => if pr then Some None else None end))
              then (do v <- py_dict_get (match es_tol_rel c with Some (rn, rd) => Some (Some (rn # Z.to_pos rd)) | None => if pr then Some None else None end);
                    Ok (negb (py_is_none v))) else Ok false);
     if t then (do tr <- py_dict_get (match es_tol_rel c with Some (rn, rd) => Some (Some (rn # Z.to_pos rd)) | None => if pr then Some None else None end);
                if negb (Qeq_bool (inject_Z mf) (inject_Z 0))
                then (do q <- py_qdiv (Qminus (inject_Z ms) (inject_Z mf)) (Qabs (inject_Z mf));
                      do tr' <- py_unopt tr; if qltb (Qmult q (inject_Z 100)) tr' then Ok true else Ok false)
                else Ok false)
     else Ok false)
    = match es_tol_rel c with
      | None => Ok false
      | Some (rn, rd) => if mf =? 0 then Ok false else Ok ((ms - mf) * 100 * rd <? rn * Z.abs mf)
      end).
  { intros _. pose proof (WF) as W. unfold rel_wf in W.
    destruct (es_tol_rel c) as [[rn rd]|] eqn:ER.
    - specialize (W rn rd eq_refl). cbn [py_is_none negb py_dict_get bind].
      rewrite Qeq_bool_inject0. destruct (Z.eqb_spec mf 0) as [->|Hne]; cbn [negb]; [reflexivity|].
      unfold py_qdiv. rewrite Qabs_inject.
      replace (Qeq_bool (inject_Z (Z.abs mf)) 0) with (Z.abs mf =? 0) by (symmetry; apply (Qeq_bool_inject0 (Z.abs mf))).
      destruct (Z.eqb_spec (Z.abs mf) 0); [lia|]. cbn [bind py_unopt].
      rewrite <- Qabs_inject. rewrite rel_test_tie by assumption.
      destruct (_ <? _); reflexivity.
    - destruct pr; cbn; reflexivity. }
  destruct (es_tol_abs c) as [a|] eqn:EA.
  - cbn [py_is_none negb py_dict_get bind py_unopt]. rewrite abs_test_tie.
    destruct (Z.abs (mf - ms) <? a); [reflexivity|]. apply (REL true).
  - destruct pa; cbn [py_is_none negb py_dict_get bind]; apply (REL true).
Qed.

(* StopRun.check: the generated method on the object built from a model configuration *)
Definition stop_of (c : stop_cfg) (pa pr : bool) (start : Z) (best : score) (sl : list score) : g_stop :=
  mkGStop start (st_max_time c) (st_max_score c)
    (match st_early c with Some e => Some (early_of e pa pr) | None => None end) best sl.

Lemma finite_list_tie l :
  py_finite_list l = match finite_scores l with Some zs => Ok (map inject_Z zs) | None => Err Unspecified end.
Proof.
  induction l as [|s l IH]; cbn; [reflexivity|]. destruct s; try reflexivity.
  rewrite IH. destruct (finite_scores l); reflexivity.
Qed.

(* a model configuration with a (non-empty) early_stopping dictionary: n_iter_no_change present or a tolerance key
   present; the empty dictionary is falsy in Python and is represented as st_early = None by the harness *)
Definition early_nonempty (e : early_cfg) (pa pr : bool) : Prop := g_early_nonempty (early_of e pa pr) = true.

Arguments g_no_change : simpl never.
Arguments g_time_exceeded : simpl never.
Arguments g_score_exceeded : simpl never.
Arguments py_finite_list : simpl never.
Arguments g_early_nonempty : simpl never.
Arguments early_of : simpl never.
Arguments Z.eqb : simpl never.
Arguments Z.ltb : simpl never.
Arguments Z.sub : simpl never.

Theorem check_tie clk k c pa pr start best sl :
  (forall e, st_early c = Some e -> rel_wf e /\ early_nonempty e pa pr) ->
  g_StopRun_check clk k (stop_of c pa pr start best sl) =
  let k' := if check_reads_clock c then S k else k in
  match check c start (clk k) best sl with
  | Ok b => Ok ((stop_of c pa pr start best sl, b), k')
  | Err e => Err e
  end.
Proof.
  intros WF. destruct c as [mt ms es]. unfold stop_of, check, check_reads_clock, g_StopRun_check, no_change_scores.
  cbn [st_max_time st_max_score st_early] in *.
  cbn [sr_max_time sr_start_time sr_max_score sr_score_best sr_early_stopping sr_score_new_list].
  assert (TAIL : forall e, es = Some e -> g_early_nonempty (early_of e pa pr) = true /\
                 forall zs, g_no_change (map inject_Z zs) (early_of e pa pr) = no_change zs e).
  { intros e E. destruct (WF e E) as [W NE]. split; [exact NE|]. intros zs. apply no_change_tie. exact W. }
  clear WF.
  destruct mt as [t|]; [destruct (t =? 0) eqn:T0|]; cbn; rewrite ?T0; cbn;
    rewrite ?time_exceeded_tie; cbn; unfold time_exceeded; rewrite ?T0; cbn;
    try (destruct (t <? clk k - start); [reflexivity|]);
    (destruct ms as [m|]; cbn; rewrite ?score_exceeded_tie; cbn; [destruct (sge best m); [reflexivity|]|]);
    (destruct es as [e|]; cbn; [|reflexivity]);
    destruct (TAIL e eq_refl) as [NE NC]; rewrite NE; cbn; rewrite finite_list_tie;
    (destruct (finite_scores sl) as [zs|]; cbn; [|reflexivity]);
    rewrite NC; destruct (no_change zs e) as [[|]|]; reflexivity.
Qed.

Lemma stop_update_tie g best sl :
  g_StopRun_update g best sl = Ok (g <| sr_score_best := best |> <| sr_score_new_list := sl |>).
Proof. reflexivity. Qed.

(* ====================================================================== corollaries used by props/ *)
Require Import DriverObs DriverFacts StopFacts C13_proofs C05_proofs.

(* the generated no_change IS the documented rule (C13), for every finite history, n >= 1, tolerance setting and
   each way of spelling an absent tolerance in the dictionary *)
Theorem source_no_change_is_rule zs cfg n pa pr : es_n cfg = Some n -> 1 <= n -> rel_wf cfg ->
  g_no_change (map inject_Z zs) (early_of cfg pa pr) = Ok (nc_spec zs cfg).
Proof. intros Hn H1 W. rewrite no_change_tie by exact W. apply (no_change_eq_spec zs cfg n Hn H1). Qed.

Theorem source_no_change_never_raises zs cfg pa pr : zs <> [] -> rel_wf cfg ->
  exists b, g_no_change (map inject_Z zs) (early_of cfg pa pr) = Ok b.
Proof. intros H W. rewrite no_change_tie by exact W. apply no_change_never_raises. exact H. Qed.

(* the two generated progress-bar paths agree on (score_best, pos_best) *)
Theorem source_verbosity_paths_agree g s p n : exists g0 g1,
  g_pbar_update_lvl0 g s p n = Ok g0 /\ g_pbar_update_lvl1 g s p n = Ok g1 /\
  pb_score_best_ g1 = pb_score_best_ g0 /\ pb_pos_best g1 = pb_pos_best g0.
Proof.
  destruct (update_lvl0_tie g s p n) as [g0 [E0 A0]]. destruct (update_lvl1_tie g s p n) as [g1 [E1 A1]].
  exists g0, g1. split; [exact E0|]. split; [exact E1|].
  destruct (lvl1_eq_lvl0 (abs_pb g) s p n) as [B P]. rewrite <- A0, <- A1 in B, P. cbn in B, P. split; assumption.
Qed.

(* the generated update never adopts NaN and adopts exactly under the model's `better` test *)
Theorem source_new2best_spec g s p n : exists g', g_pbar_new2best g s p n = Ok g' /\
  (pb_score_best_ g', pb_pos_best g') =
  (if better s (pb_score_best_ g) (pb_pos_best g) then (s, Some p) else (pb_score_best_ g, pb_pos_best g)).
Proof.
  destruct (new2best_tie g s p n) as [g' [E A]]. exists g'. split; [exact E|].
  assert (H : pb_best (abs_pb g') = pb_score_best_ g' /\ pb_pos (abs_pb g') = pb_pos_best g') by (split; reflexivity).
  destruct H as [H1 H2]. rewrite <- H1, <- H2, A. unfold new2best. cbn. destruct (better s _ _); reflexivity.
Qed.
