(* GridTie.v — the definitions GENERATED from /repo's grid-search source (generated/GridGen.v) refine the model of
   theories/Grid.v, and the coverage theorems of C16 are restated for the generated code.
   Assumptions of the tie (each is an observable the K/S-units of C16 / C01 compare): no constraints
   (not_in_constraint = true), conv2pos is the identity on positions inside the box, conv.dim_sizes / search_space_size /
   n_dimensions are the sizes, their product and their number. *)
Require Import Base PyPrims PyPrimsQ Converter Grid GridGen ListFacts GridFacts C16_proofs.
From Coq Require Import Znumtheory.
From RecordUpdate Require Import RecordSet.
Import RecordSetNotations.
Open Scope Z_scope.

Lemma zprod_l_eq l : zprod_l l = zprod l.
Proof. reflexivity. Qed.

Lemma zprod_nz dims : Forall (fun d => 1 <= d) dims -> (zprod dims =? 0) = false.
Proof. intros H. pose proof (zprod_pos dims H). apply Z.eqb_neq. lia. Qed.

(* ================================================================ generic loop lemmas *)
Lemma py_for_app {S A} (F : S -> A -> res S) l1 l2 s :
  py_for F (l1 ++ l2) s = do s1 <- py_for F l1 s; py_for F l2 s1.
Proof. revert s. induction l1 as [|x l1 IH]; intros s; cbn; [reflexivity|]. destruct (F s x); cbn; [apply IH|reflexivity]. Qed.

(* ================================================================ diagonal: grid_move = decode_be *)
Section DecodeBE.
  Context {G : Type}.
  Variable g : G.
  Variable dims : list Z.
  Variable F : (list Z * Z * G) -> Z -> res (list Z * Z * G).
  Hypothesis F_step : forall acc ptr (i : nat) d rest,
    nth_error dims i = Some d -> skipn (S i) dims = rest ->
    F ((acc, ptr), g) (Z.of_nat i) = Ok ((acc ++ [ptr / zprod rest mod d], ptr mod zprod rest), g).

  Lemma for_decode_be : forall suf pre acc ptr, dims = pre ++ suf -> suf <> [] ->
    exists acc' ptr', py_for F (map Z.of_nat (seq (length pre) (length suf - 1))) ((acc, ptr), g) = Ok ((acc', ptr'), g)
                      /\ acc' ++ [ptr'] = acc ++ decode_be suf ptr.
  Proof.
    induction suf as [|d suf IH]; intros pre acc ptr E Hne; [contradiction|].
    destruct suf as [|d' r].
    - cbn. exists acc, ptr. split; reflexivity.
    - replace (length (d :: d' :: r) - 1)%nat with (Datatypes.S (length (d' :: r) - 1)) by (cbn; lia).
      cbn [seq map py_for].
      rewrite (F_step acc ptr (length pre) d (d' :: r)).
      + cbn [bind].
        destruct (IH (pre ++ [d]) (acc ++ [ptr / zprod (d' :: r) mod d]) (ptr mod zprod (d' :: r))) as (acc' & ptr' & E1 & E2).
        * rewrite E, <- app_assoc. reflexivity.
        * discriminate.
        * rewrite app_length in E1. cbn [length] in E1. replace (length pre + 1)%nat with (Datatypes.S (length pre)) in E1 by lia.
          exists acc', ptr'. split; [exact E1|]. rewrite E2, <- app_assoc. reflexivity.
      + rewrite E. rewrite nth_error_app2 by lia. rewrite Nat.sub_diag. reflexivity.
      + rewrite E. replace (Datatypes.S (length pre)) with (length (pre ++ [d])) by (rewrite app_length; cbn; lia).
        replace (pre ++ d :: d' :: r) with ((pre ++ [d]) ++ d' :: r) by (rewrite <- app_assoc; reflexivity).
        rewrite skipn_app, skipn_all, Nat.sub_diag. reflexivity.
  Qed.
End DecodeBE.

Lemma nth_py_nat {A} (l : list A) (i : nat) x : nth_error l i = Some x -> nth_py l (Z.of_nat i) = Ok x.
Proof.
  intros H. unfold nth_py, zlen. assert (i < length l)%nat by (apply nth_error_Some; congruence).
  destruct (Z.ltb_spec (Z.of_nat i) 0); [lia|].
  destruct (Z.ltb_spec (Z.of_nat i) 0); [lia|]. destruct (Z.leb_spec (Z.of_nat (length l)) (Z.of_nat i)); [lia|].
  cbn. rewrite Nat2Z.id, H. reflexivity.
Qed.

Lemma slice_from_nat {A} (l : list A) (i : nat) : py_slice_from (Z.of_nat i + 1) l = skipn (S i) l.
Proof.
  unfold py_slice_from, py_norm_bound. destruct (Z.ltb_spec (Z.of_nat i + 1) 0); [lia|].
  f_equal. lia.
Qed.

Definition g_of (dims : list Z) (s : Z) (st : diag_state) : g_diag :=
  mkGDiag (map (fun _ => 0) dims) (dg_ptr st) (dg_dir st) s (dg_trial st) dims (zprod dims) (zlen dims).

Lemma skipn_all_pos (dims : list Z) i : Forall (fun d => 1 <= d) dims -> Forall (fun d => 1 <= d) (skipn i dims).
Proof. intros H. apply Forall_forall. intros x Hx. rewrite Forall_forall in H. apply H. rewrite <- (firstn_skipn i dims). apply in_or_app. right. exact Hx. Qed.

Lemma diag_grid_move_tie dims s st : Forall (fun d => 1 <= d) dims -> dims <> [] ->
  g_diag_grid_move (g_of dims s st) = Ok (g_of dims s st, decode_be dims (dg_ptr st)).
Proof.
  intros Hd Hne. unfold g_diag_grid_move. set (g := g_of dims s st).
  change (dg_dim_sizes g) with dims. change (dg_high_dim_pointer g) with (dg_ptr st). cbv zeta.
  match goal with |- context[py_for ?F _ _] => set (F0 := F) end.
  assert (HF : forall acc ptr (i : nat) d rest, nth_error dims i = Some d -> skipn (S i) dims = rest ->
            F0 ((acc, ptr), g) (Z.of_nat i) = Ok ((acc ++ [ptr / zprod rest mod d], ptr mod zprod rest), g)).
  { intros acc ptr i d rest Hn Hs. unfold F0. cbn beta iota.
    rewrite slice_from_nat, Hs, zprod_l_eq. unfold py_floordiv, py_mod, py_getitem.
    assert (Hr : Forall (fun d => 1 <= d) rest) by (rewrite <- Hs; apply skipn_all_pos; exact Hd).
    rewrite (zprod_nz rest Hr). cbn [bind]. rewrite (nth_py_nat dims i d Hn). cbn [bind].
    assert (1 <= d). { rewrite Forall_forall in Hd. apply Hd. eapply nth_error_In; eassumption. }
    destruct (Z.eqb_spec d 0); [lia|]. cbn [bind]. reflexivity. }
  destruct (for_decode_be g dims F0 HF dims [] [] (dg_ptr st) eq_refl Hne) as (acc' & ptr' & E1 & E2).
  cbn [length app] in E1, E2.
  unfold py_range. replace (Z.to_nat (zlen dims - 1)) with (length dims - 1)%nat by (unfold zlen; lia).
  rewrite E1. cbn [bind]. rewrite E2. reflexivity.
Qed.

(* ================================================================ diagonal: get_direction *)
Section DiagTie.
  Variable d0 : Z.
  Variable conv2pos : pos -> pos.
  Variable mr : res pos.
  Let feas : pos -> bool := fun _ => true.

  Lemma diag_get_direction_tie dims s st : forall f d,
    get_direction f (zprod dims) d0 = Ok d ->
    g_diag_get_direction d0 (S f) (g_of dims s st) = Ok (g_of dims s st, d).
  Proof.
    intros f d H. unfold g_diag_get_direction. set (g := g_of dims s st).
    change (dg_search_space_size g) with (zprod dims). cbv zeta.
    match goal with |- context[py_while _ ?C ?B _] => set (C0 := C); set (B0 := B) end.
    assert (W : forall f x, get_direction f (zprod dims) x = Ok d -> py_while (S f) C0 B0 ((x, false), g) = Ok ((d, true), g)).
    { clear. induction f as [|f IH]; intros x H; [discriminate|].
      cbn [get_direction] in H. cbn [py_while]. unfold C0 at 1. cbn [negb bind]. unfold B0 at 1. cbn beta iota.
      destruct (Z.gcd (zprod dims) x =? 1) eqn:G.
      - injection H as <-. cbn [bind]. destruct f; cbn [py_while]; unfold C0; cbn; reflexivity.
      - cbn [bind]. replace (x + - (1)) with (x - 1) by lia. apply IH. exact H. }
    rewrite (W f d0 H). cbn [bind]. reflexivity.
  Qed.

  Hypothesis conv_id : forall dims p, in_dims dims p -> conv2pos p = p.

  (* one iterate of the generated code = one iterate of the model, whenever the model's position lies in the box
     (where conv2pos is the identity); fuel: the direction search needs |d0| + 1 rounds, the feasibility loop one *)
  Lemma diag_iterate_tie dims s st st' p : Forall (fun d => 1 <= d) dims -> dims <> [] -> s <> 0 ->
    diag_iterate dims s d0 st = Ok (st', p) -> in_dims dims p ->
    g_diag_iterate d0 feas conv2pos mr (S (Z.to_nat d0 + 1)) (g_of dims s st) = Ok (g_of dims s st', p).
  Proof.
    intros Hd Hne Hs H Hin. unfold g_diag_iterate. cbn [py_while_ret].
    unfold diag_iterate, diag_iterate_gen in H.
    destruct (dg_dir st) as [d|] eqn:Edir.
    - (* a later iteration *)
      injection H as <- <-.
      unfold g_of. cbn [dg_direction_calc py_is_none]. rewrite Edir. cbn [py_is_none].
      cbn [dg_high_dim_pointer dg_step_size dg_nth_trial dg_search_space_size]. unfold py_mod, py_floordiv.
      destruct (Z.eqb_spec s 0); [contradiction|]. cbn [bind]. rewrite (zprod_nz dims Hd). cbn [bind].
      unfold next_ptr_gen, pass_finished in *.
      destruct ((dg_trial st - 1) * s / zprod dims <? dg_trial st * s / zprod dims) eqn:PF.
      + match goal with |- context[g_diag_grid_move ?x] =>
          change x with (g_of dims s (mkDiag (Some d) (dg_ptr st mod s + 1) (dg_trial st))) end.
        rewrite diag_grid_move_tie by assumption. cbn [bind dg_ptr]. rewrite (conv_id dims) by exact Hin.
        unfold feas. reflexivity.
      + cbn [py_unopt bind].
        rewrite ?(zprod_nz dims Hd). cbn [bind].
        match goal with |- context[g_diag_grid_move ?x] =>
          change x with (g_of dims s (mkDiag (Some d) ((dg_ptr st + s * d) mod zprod dims) (dg_trial st))) end.
        rewrite diag_grid_move_tie by assumption. cbn [bind dg_ptr]. rewrite (conv_id dims) by exact Hin.
        unfold feas. reflexivity.
    - (* the first iteration: find the direction, return the origin *)
      destruct (get_direction (Z.to_nat d0 + 1) (zprod dims) d0) as [d|e] eqn:GD; cbn [bind] in H; [|discriminate].
      injection H as <- <-.
      unfold g_of at 1. cbn [dg_direction_calc]. rewrite Edir. cbn [py_is_none].
      change (mkGDiag (map (fun _ : Z => 0) dims) (dg_ptr st) None s (dg_trial st) dims (zprod dims) (zlen dims))
        with (g_of dims s (mkDiag None (dg_ptr st) (dg_trial st))).
      rewrite (diag_get_direction_tie dims s _ _ _ GD). cbn [bind]. unfold feas. cbn [g_of dg_initial_position dg_ptr dg_dir dg_trial].
      reflexivity.
  Qed.

  (* the run: iterate, then the tracker's nth_trial += 1 (track_new_score, generated/TrackerGen.v) *)
  Fixpoint g_diag_run (fuel n : nat) (g : g_diag) : res (list pos) :=
    match n with
    | O => Ok []
    | S k => do gp <- g_diag_iterate d0 feas conv2pos mr fuel g;
             do rest <- g_diag_run fuel k ((fst gp) <| dg_nth_trial ::= Z.succ |>);
             Ok (snd gp :: rest)
    end.

  Lemma g_of_evaluate dims s st : (g_of dims s st) <| dg_nth_trial ::= Z.succ |> = g_of dims s (grid_evaluate st).
  Proof. destruct st as [d p t]. unfold g_of, grid_evaluate. cbn. replace (Z.succ t) with (t + 1) by lia. reflexivity. Qed.

  Lemma diag_run_tie dims s : Forall (fun d => 1 <= d) dims -> dims <> [] -> s <> 0 ->
    forall n st ps, diag_run n dims s d0 st = Ok ps -> Forall (in_dims dims) ps ->
    g_diag_run (S (Z.to_nat d0 + 1)) n (g_of dims s st) = Ok ps.
  Proof.
    intros Hd Hne Hs. induction n as [|n IH]; intros st ps H Hin.
    - cbn in H. injection H as <-. reflexivity.
    - unfold diag_run in H. cbn [diag_run_gen] in H.
      destruct (diag_iterate_gen pass_finished dims s d0 st) as [[st1 p]|e] eqn:E; cbn [bind] in H; [|discriminate].
      destruct (diag_run_gen pass_finished n dims s d0 (grid_evaluate st1)) as [rest|e] eqn:R; cbn [bind] in H; [|discriminate].
      injection H as <-. inversion Hin as [|? ? Hp Hrest]; subst.
      cbn [g_diag_run]. rewrite (diag_iterate_tie dims s st st1 p Hd Hne Hs E Hp). cbn [bind fst snd].
      rewrite g_of_evaluate. rewrite (IH (grid_evaluate st1) rest R Hrest). reflexivity.
  Qed.
End DiagTie.

Lemma g_diag_init_of dims s : g_diag_init dims s = g_of dims s diag_init.
Proof. reflexivity. Qed.

(* C16 for the generated diagonal code *)
Theorem source_diag_covers : forall (dims : list Z) (s d0 : Z) (conv2pos : pos -> pos) (mr : res pos),
  Forall (fun d => 1 <= d) dims -> dims <> [] -> 0 < s -> (s | zprod dims) -> 1 <= d0 ->
  (forall dims p, in_dims dims p -> conv2pos p = p) ->
  exists ps, g_diag_run d0 conv2pos mr (S (Z.to_nat d0 + 1)) (Z.to_nat (zprod dims)) (g_diag_init dims s) = Ok ps /\
             NoDup ps /\ Forall (in_dims dims) ps /\ length ps = Z.to_nat (zprod dims) /\
             (forall p, in_dims dims p -> In p ps).
Proof.
  intros dims s d0 conv2pos mr Hd Hne Hs Hdiv Hd0 Hid.
  destruct (C16_diag_holds dims s d0 Hd Hne Hs Hdiv Hd0) as (ps & Hrun & A & B & C & D).
  exists ps. split; [|repeat split; assumption].
  rewrite g_diag_init_of. apply diag_run_tie; try assumption. lia.
Qed.

(* ================================================================ orthogonal *)
Section OrthTie.
  Variable conv2pos : pos -> pos.

  Lemma for_decode_le {G} (g : G) (F : (Z * list Z * Z * G) -> Z -> res (Z * list Z * Z * G)) :
    (forall x acc d, 0 <= x -> 1 <= d -> F (((x, acc), x), g) d = Ok (((x / d, acc ++ [x mod d]), x / d), g)) ->
    forall dims x acc, Forall (fun d => 1 <= d) dims -> 0 <= x ->
    exists x', py_for F dims (((x, acc), x), g) = Ok (((x', acc ++ decode_le dims x), x'), g).
  Proof.
    intros HF. induction dims as [|d dims IH]; intros x acc Hd Hx.
    - cbn. exists x. rewrite app_nil_r. reflexivity.
    - inversion Hd as [|? ? H1 Hr]; subst. cbn [py_for decode_le]. rewrite HF by assumption. cbn [bind].
      destruct (IH (x / d) (acc ++ [x mod d]) Hr) as (x' & E); [apply Z.div_pos; lia|].
      exists x'. rewrite E, <- app_assoc. reflexivity.
  Qed.

  Definition go_of (dims : list Z) (s t : Z) : g_orth := mkGOrth s t dims (zprod dims).

  Lemma quot_div_nonneg a b : 0 <= a -> 0 < b -> Z.quot a b = a / b.
  Proof. intros. apply Z.quot_div_nonneg; lia. Qed.

  Lemma orth_grid_move_tie dims s t : Forall (fun d => 1 <= d) dims -> 0 <= s -> 0 <= t ->
    g_orth_grid_move (go_of dims s t) = Ok (go_of dims s t, orth_iterate dims s t).
  Proof.
    intros Hd Hs Ht. unfold g_orth_grid_move, go_of. cbn [og_nth_trial og_step_size og_search_space_size og_dim_sizes].
    unfold py_int_truediv. rewrite (zprod_nz dims Hd). cbn [bind].
    pose proof (zprod_pos dims Hd) as HS.
    rewrite quot_div_nonneg by nia.
    set (g := mkGOrth s t dims (zprod dims)).
    match goal with |- context[py_for ?F _ _] => set (F0 := F) end.
    assert (HF : forall x acc d, 0 <= x -> 1 <= d -> F0 (((x, acc), x), g) d = Ok (((x / d, acc ++ [x mod d]), x / d), g)).
    { intros x acc d Hx H1. unfold F0. cbn beta iota. unfold py_mod, py_int_truediv.
      destruct (Z.eqb_spec d 0); [lia|]. cbn [bind]. rewrite quot_div_nonneg by lia. reflexivity. }
    assert (Hp : 0 <= t * s + t * s / zprod dims) by (pose proof (Z.div_pos (t * s) (zprod dims) ltac:(nia) ltac:(lia)); nia).
    destruct (for_decode_le g F0 HF dims (t * s + t * s / zprod dims) [] Hd Hp) as (x' & E).
    rewrite E. cbn [bind app]. reflexivity.
  Qed.

  Hypothesis conv_id : forall dims p, in_dims dims p -> conv2pos p = p.

  Lemma orth_iterate_tie dims s t : Forall (fun d => 1 <= d) dims -> 0 <= s -> 0 <= t ->
    g_orth_iterate conv2pos (go_of dims s t) = Ok (go_of dims s t, orth_iterate dims s t).
  Proof.
    intros Hd Hs Ht. unfold g_orth_iterate. rewrite orth_grid_move_tie by assumption. cbn [bind].
    rewrite (conv_id dims); [reflexivity|].
    unfold orth_iterate. apply decode_le_in_dims; [assumption|].
    unfold orth_pointer. pose proof (zprod_pos dims Hd). pose proof (Z.div_pos (t * s) (zprod dims) ltac:(nia) ltac:(lia)). nia.
  Qed.

  (* the run: iterate, then the tracker's nth_trial += 1 *)
  Fixpoint g_orth_run (n : nat) (g : g_orth) : res (list pos) :=
    match n with
    | O => Ok []
    | S k => do gp <- g_orth_iterate conv2pos g;
             do rest <- g_orth_run k ((fst gp) <| og_nth_trial ::= Z.succ |>);
             Ok (snd gp :: rest)
    end.

  Lemma orth_run_tie dims s : Forall (fun d => 1 <= d) dims -> 0 <= s ->
    forall n t, g_orth_run n (go_of dims s (Z.of_nat t)) = Ok (map (fun i => orth_iterate dims s (Z.of_nat i)) (seq t n)).
  Proof.
    intros Hd Hs. induction n as [|n IH]; intros t; [reflexivity|].
    cbn [g_orth_run seq map]. rewrite orth_iterate_tie by (try assumption; lia). cbn [bind fst snd].
    assert (E : (go_of dims s (Z.of_nat t)) <| og_nth_trial ::= Z.succ |> = go_of dims s (Z.of_nat (S t))).
    { rewrite Nat2Z.inj_succ. reflexivity. }
    rewrite E.
    rewrite IH. reflexivity.
  Qed.
End OrthTie.

(* C16 for the generated orthogonal code *)
Theorem source_orth_covers : forall (dims : list Z) (s : Z) (conv2pos : pos -> pos),
  Forall (fun d => 1 <= d) dims -> 0 < s -> (s | zprod dims) ->
  (forall dims p, in_dims dims p -> conv2pos p = p) ->
  exists ps, g_orth_run conv2pos (Z.to_nat (zprod dims)) (go_of dims s 0) = Ok ps /\
             NoDup ps /\ Forall (in_dims dims) ps /\ length ps = Z.to_nat (zprod dims) /\
             (forall p, in_dims dims p -> In p ps).
Proof.
  intros dims s conv2pos Hd Hs Hdiv Hid.
  exists (orth_run (Z.to_nat (zprod dims)) dims s). split.
  - change 0 with (Z.of_nat 0). rewrite (orth_run_tie conv2pos Hid dims s Hd ltac:(lia)). reflexivity.
  - exact (C16_orth_holds dims s Hd Hs Hdiv).
Qed.

(* ================================================================ finding F-D5 for the generated code (C08)
   the `while True` of the diagonal iterate recomputes the pointer from the unchanged nth_trial: when a pass has just
   finished (nth_trial = 4 on a 1x4 space, step 1) the restart pointer is `pointer % 1 + 1 = 1` on every round, so a
   constraint that excludes position [1] (3/4 of the space stays feasible) makes the loop spin: for EVERY amount of
   fuel the translated iterate runs out of it *)
Definition d5_state (p : Z) : g_diag := mkGDiag [0] p (Some 1) 1 4 [4] 4 1.
Definition d5_cons (q : pos) : bool := negb (pos_eqb q [1]).

Theorem source_diag_livelock : forall fuel p mr,
  g_diag_iterate 1 d5_cons (fun q => q) mr fuel (d5_state p) = Err OutOfFuel.
Proof.
  intros fuel p mr. unfold g_diag_iterate. generalize fuel at 2. intros F. revert p.
  match goal with |- forall p, py_while_ret _ ?B _ = _ => set (body := B) end.
  assert (HB : forall p, body (d5_state p) = Ok (inl (d5_state 1))).
  { intros p. unfold body, d5_state.
    cbn [dg_direction_calc py_is_none dg_high_dim_pointer dg_step_size dg_nth_trial dg_search_space_size].
    unfold py_mod, py_floordiv. cbn [Z.eqb bind]. rewrite Z.mod_1_r. cbn. reflexivity. }
  induction fuel as [|f IH]; intros p; [reflexivity|]. cbn [py_while_ret]. rewrite HB. cbn [bind]. apply IH.
Qed.

(* three of the four points are feasible *)
Lemma d5_feasible_fraction : map d5_cons [[0]; [1]; [2]; [3]] = [true; false; true; true].
Proof. reflexivity. Qed.
