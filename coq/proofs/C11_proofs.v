(* C11 — memory_warm_start rows are trusted verbatim: what dictionary a frame becomes. *)
Require Import Base Converter Driver ConverterFacts ListFacts MemFacts C20_proofs.

(* python dict(zip(keys, values)): the LAST pair for a key wins *)
Fixpoint last_assoc {V} (k : pos) (l : list (pos * V)) : option V :=
  match l with
  | [] => None
  | (k', v) :: tl => match last_assoc k tl with
                     | Some x => Some x
                     | None => if pos_eqb k k' then Some v else None end
  end.

Section DictLast.
  Context {V : Type}.
  Lemma dget_set_same (k : pos) (v : V) d : dict_get pos_eqb k (dict_set pos_eqb k v d) = Some v.
  Proof.
    induction d as [|[k' v'] d IH]; cbn; [rewrite pos_eqb_refl; reflexivity|].
    destruct (pos_eqb k k') eqn:E; cbn; rewrite E; [reflexivity|exact IH].
  Qed.
  Lemma dget_set_other (k k0 : pos) (v : V) d : k0 <> k -> dict_get pos_eqb k0 (dict_set pos_eqb k v d) = dict_get pos_eqb k0 d.
  Proof.
    intros Hne. induction d as [|[k' v'] d IH]; cbn.
    - rewrite (pos_eqb_neq k0 k Hne). reflexivity.
    - destruct (pos_eqb k k') eqn:E; cbn.
      + apply pos_eqb_eq in E. subst k'. rewrite (pos_eqb_neq k0 k Hne). reflexivity.
      + destruct (pos_eqb k0 k'); [reflexivity|exact IH].
  Qed.

  Lemma fold_set_last (l : list (pos * V)) : forall acc k,
    dict_get pos_eqb k (fold_left (fun m kv => dict_set pos_eqb (fst kv) (snd kv) m) l acc) =
    match last_assoc k l with Some x => Some x | None => dict_get pos_eqb k acc end.
  Proof.
    induction l as [|[k' v] l IH]; intros acc k; cbn; [reflexivity|].
    rewrite IH. destruct (last_assoc k l); [reflexivity|].
    destruct (pos_eqb k k') eqn:E.
    - apply pos_eqb_eq in E. subst. apply dget_set_same.
    - apply dget_set_other. intros ->. rewrite pos_eqb_refl in E. discriminate.
  Qed.

  Theorem dict_of_pairs_last (l : list (pos * V)) k : dict_get pos_eqb k (dict_of_pairs pos_eqb l) = last_assoc k l.
  Proof. unfold dict_of_pairs. rewrite fold_set_last. destruct (last_assoc k l); reflexivity. Qed.
End DictLast.

(* a frame whose rows hold member values becomes the dictionary  position |-> score of the last such row *)
Theorem frame_dict_exact {V} sp names (fr : frame V) vals ps :
  distinct_dims sp ->
  subsetb names (fr_cols fr) = true -> fr_rows fr <> [] ->
  map_res (fun r => select_cols (fr_cols fr) names (fst r)) (fr_rows fr) = Ok vals ->
  Forall2 (fun v p => in_box sp p /\ position2value sp p = Ok v) vals ps ->
  dataframe2memory_dict sp names fr = Ok (dict_of_pairs pos_eqb (zip ps (map snd (fr_rows fr)))).
Proof.
  intros Hd Hsub Hne Hsel HF. unfold dataframe2memory_dict. rewrite Hsub, Hsel. cbn [bind].
  assert (Hv : map_res (value2position sp) vals = Ok ps).
  { clear -Hd HF. induction HF as [|v p vals ps [Hb Hp] _ IH]; [reflexivity|]. cbn.
    rewrite (position_roundtrip sp p v Hd Hb Hp). cbn. rewrite IH. reflexivity. }
  assert (Hvne : vals <> []).
  { intros ->. apply map_res_length in Hsel. destruct (fr_rows fr); [contradiction|discriminate]. }
  rewrite (batched_v2p_eq_single sp vals ps Hvne Hv). reflexivity.
Qed.

(* record of defect D3 for C11 (fixed): a descending dimension's member 3 was keyed 3 (out of range) *)
Require Import Legacy.
Example descending_warm_start_key_unfixed :
  values2positions_unfixed_1d [3; 2; 1] [3] = [3] /\ values2positions [[3; 2; 1]] [[3]] = Ok [[0]].
Proof. vm_compute. split; reflexivity. Qed.
