(* SearchTie.v — the step functions and the loop GENERATED from /repo's search.py, _times_tracker.py, _search_statistics.py
   (generated/SearchGen.v) simulate the hand-written driver of theories/Driver.v, for every abstract optimizer, objective, clock
   and state.  The generated state keeps the optimizer, the counters, the lists, the progress bar (generated/DriverGen.v) and the
   stop object; the results-manager / memory part is the model's own state, reached through `inner_score` (the part of
   Driver.score_of between the two clock readings). *)
Require Import Base PyPrims PyPrimsQ StopRun Converter Driver DriverGen DriverTie SearchGen.
From RecordUpdate Require Import RecordSet.
Import RecordSetNotations.
Open Scope Z_scope.

Arguments gs_opt {OP RS}.
Arguments gs_res {OP RS}.
Arguments gs_p_bar {OP RS}.
Arguments gs_lvl1 {OP RS}.
Arguments gs_stop {OP RS}.
Arguments gs_score_l {OP RS}.
Arguments gs_pos_l {OP RS}.
Arguments gs_best_score {OP RS}.
Arguments gs_nth_iter {OP RS}.
Arguments gs_n_init_total {OP RS}.
Arguments gs_n_iter_total {OP RS}.
Arguments gs_n_init_search {OP RS}.
Arguments gs_n_iter_search {OP RS}.
Arguments gs_n_inits_norm {OP RS}.
Arguments gs_n_iter {OP RS}.
Arguments gs_eval_times {OP RS}.
Arguments gs_iter_times {OP RS}.
Arguments mkGSearch {OP RS}.

Definition rmap {A B} (h : A -> B) (r : res A) : res B := match r with Ok a => Ok (h a) | Err e => Err e end.

Section Tie.
  Context {OP : optimizer}.
  Variable sp : space.
  Variable f : nat -> values -> result.
  Variable clk : nat -> Z.

  (* self.score(pos): ResultsManager.score around Memory.memory / the objective -- Driver.score_of without its clock readings *)
  Definition inner_score (s : drv OP) (p : pos) : res (drv OP * score) :=
    do v <- position2value sp p;
    do rs <- lookup sp f s v;
    Ok ((snd rs) <| d_rows ::= (fun l => l ++ [result_row (fst rs) v]) |>, r_score (fst rs)).

  Lemma score_of_split (s : drv OP) p :
    score_of sp f clk s p =
    (let s0 := s <| d_clk ::= S |> in
     do x <- inner_score s0 p;
     Ok (snd x, (fst x) <| d_clk ::= S |> <| d_eval_times ::= (fun l => l ++ [clk (d_clk (fst x)) - clk (d_clk s)]) |>)).
  Proof.
    unfold score_of, inner_score, tick. cbn.
    destruct (position2value sp p) as [v|e]; cbn [bind]; [|reflexivity].
    destruct (lookup sp f (s <| d_clk ::= S |>) v) as [[r s1]|e]; cbn [bind fst snd]; reflexivity.
  Qed.

  Notation gsearch := (@g_search OP (drv OP)).

  (* the model state seen through a generated state: results / memory / call settings from gs_res, the rest from the object *)
  Definition ov (g : gsearch) (k : nat) (x : drv OP) : drv OP :=
    x <| d_opt := gs_opt g |> <| d_pos_l := gs_pos_l g |> <| d_score_l := gs_score_l g |>
      <| d_n_init_total := gs_n_init_total g |> <| d_n_iter_total := gs_n_iter_total g |>
      <| d_eval_times := gs_eval_times g |> <| d_iter_times := gs_iter_times g |> <| d_clk := k |>
      <| d_pbar := abs_pb (gs_p_bar g) |> <| d_n_inits_norm := gs_n_inits_norm g |>
      <| d_n_init_search := gs_n_init_search g |> <| d_n_iter_search := gs_n_iter_search g |>.
  Definition abs (g : gsearch) (k : nat) : drv OP := ov g k (gs_res g).

  (* inner_score touches only the results / memory part *)
  Lemma inner_score_frame g k x p :
    inner_score (ov g k x) p = rmap (fun xs => (ov g k (fst xs), snd xs)) (inner_score x p).
  Proof.
    destruct x as [o rows posl scl nit ntt evt itt ck fc cl st pb mem memn nin nis nts bs bv md].
    unfold inner_score, lookup, ov. cbn.
    destruct (position2value sp p) as [v|e]; cbn [bind rmap]; [|reflexivity].
    destruct (c_memory cl); cbn.
    - destruct (value2position sp v) as [key|e]; cbn [bind rmap]; [|reflexivity].
      destruct (dict_get pos_eqb key mem) as [r|]; cbn; reflexivity.
    - reflexivity.
  Qed.

  (* d_clk of the frame does not matter for inner_score's result on the other fields: inner_score never reads the clock *)
  Lemma inner_score_clk (x : drv OP) p (h : nat -> nat) :
    inner_score (x <| d_clk ::= h |>) p = rmap (fun xs => ((fst xs) <| d_clk ::= h |>, snd xs)) (inner_score x p).
  Proof.
    destruct x as [o rows posl scl nit ntt evt itt ck fc cl st pb mem memn nin nis nts bs bv md].
    unfold inner_score, lookup. cbn.
    destruct (position2value sp p) as [v|e]; cbn [bind rmap]; [|reflexivity].
    destruct (c_memory cl); cbn.
    - destruct (value2position sp v) as [key|e]; cbn [bind rmap]; [|reflexivity].
      destruct (dict_get pos_eqb key mem) as [r|]; cbn; reflexivity.
    - reflexivity.
  Qed.

  Notation gscore := (g_Search__score (drv OP) inner_score).

  (* ---------- _score (eval_time around self.score) ---------- *)
  Lemma score_tie (g : gsearch) k p :
    rmap (fun x => (snd (fst x), abs (fst (fst x)) (snd x))) (gscore clk k g p) = score_of sp f clk (abs g k) p.
  Proof.
    rewrite score_of_split. unfold g_Search__score, g_Search__score__body, gs_score, abs. cbn [bind].
    replace ((ov g k (gs_res g)) <| d_clk ::= S |>) with (ov g (S k) (gs_res g)) by (unfold ov; destruct (gs_res g); reflexivity).
    rewrite inner_score_frame.
    destruct (inner_score (gs_res g) p) as [[x sc]|e]; cbn [bind rmap fst snd]; [|reflexivity].
    unfold ov. destruct x. destruct g. cbn. reflexivity.
  Qed.

  (* _score in terms of inner_score on the results part *)
  Lemma gscore_eq (g : gsearch) k p :
    gscore clk k g p =
    do xs <- inner_score (gs_res g) p;
    Ok ((g <| gs_res := fst xs |> <| gs_eval_times := gs_eval_times g ++ [clk (S k) - clk k] |>, snd xs), S (S k)).
  Proof.
    unfold g_Search__score, g_Search__score__body, gs_score. cbn [bind].
    destruct (inner_score (gs_res g) p) as [[x sc]|e]; cbn [bind fst snd]; [|reflexivity]. destruct g; reflexivity.
  Qed.

  Lemma score_of_abs (g : gsearch) k p :
    score_of sp f clk (abs g k) p =
    do xs <- inner_score (gs_res g) p;
    Ok (snd xs, abs (g <| gs_res := fst xs |> <| gs_eval_times := gs_eval_times g ++ [clk (S k) - clk k] |>) (S (S k))).
  Proof. rewrite <- score_tie, gscore_eq. destruct (inner_score (gs_res g) p) as [[x sc]|e]; reflexivity. Qed.

  Lemma inner_score_call (x : drv OP) p x' sc : inner_score x p = Ok (x', sc) -> d_call x' = d_call x.
  Proof.
    destruct x as [o rows posl scl nit ntt evt itt ck fc cl st pb mem memn nin nis nts bs bv md].
    unfold inner_score, lookup. cbn.
    destruct (position2value sp p) as [v|e]; cbn [bind]; [|discriminate].
    destruct (c_memory cl); cbn.
    - destruct (value2position sp v) as [key|e]; cbn [bind]; [|discriminate].
      destruct (dict_get pos_eqb key mem) as [r|]; cbn; intros H; inversion H; reflexivity.
    - intros H; inversion H; reflexivity.
  Qed.

  (* the progress-bar call of the generated code against the model's pbar_update *)
  Lemma gs_pbar_update_tie (g : gsearch) sc p n : exists g', gs_pbar_update (drv OP) g sc p n = Ok g' /\
    g' = g <| gs_p_bar := gs_p_bar g' |> /\
    abs_pb (gs_p_bar g') = (if gs_lvl1 g then pbar_update_lvl1 (abs_pb (gs_p_bar g)) sc p n else pbar_update_lvl0 (abs_pb (gs_p_bar g)) sc p n) /\
    pb_score_best_ (gs_p_bar g') = pb_best (abs_pb (gs_p_bar g')).
  Proof.
    unfold gs_pbar_update. destruct (gs_lvl1 g) eqn:L.
    - destruct (update_lvl1_tie (gs_p_bar g) sc p n) as [pb [E A]]. rewrite E. cbn [bind]. eexists. split; [reflexivity|].
      split; [destruct g; reflexivity|]. split; [exact A|reflexivity].
    - destruct (update_lvl0_tie (gs_p_bar g) sc p n) as [pb [E A]]. rewrite E. cbn [bind]. eexists. split; [reflexivity|].
      split; [destruct g; reflexivity|]. split; [exact A|reflexivity].
  Qed.

  (* what a step leaves in the stop object: the configuration untouched, (score_best, score_new_list) = the bar's best and score_l *)
  Definition stop_synced (g : gsearch) (st0 : g_stop) : Prop :=
    gs_stop g = st0 <| sr_score_best := pb_score_best_ (gs_p_bar g) |> <| sr_score_new_list := gs_score_l g |>.
  (* what no step changes *)
  Definition same_cfg (g g' : gsearch) : Prop :=
    gs_lvl1 g' = gs_lvl1 g /\ gs_n_iter g' = gs_n_iter g /\ gs_n_inits_norm g' = gs_n_inits_norm g /\ gs_nth_iter g' = gs_nth_iter g /\
    d_call (gs_res g') = d_call (gs_res g) /\ d_start (gs_res g') = d_start (gs_res g).

  Lemma inner_score_start (x : drv OP) p x' sc : inner_score x p = Ok (x', sc) -> d_start x' = d_start x.
  Proof.
    destruct x as [o rows posl scl nit ntt evt itt ck fc cl st pb mem memn nin nis nts bs bv md].
    unfold inner_score, lookup. cbn.
    destruct (position2value sp p) as [v|e]; cbn [bind]; [|discriminate].
    destruct (c_memory cl); cbn.
    - destruct (value2position sp v) as [key|e]; cbn [bind]; [|discriminate].
      destruct (dict_get pos_eqb key mem) as [r|]; cbn; intros H; inversion H; reflexivity.
    - intros H; inversion H; reflexivity.
  Qed.
  Lemma tick_abs (g : gsearch) k : tick clk (abs g k) = (clk k, abs g (S k)).
  Proof. unfold tick, abs, ov. destruct (gs_res g). reflexivity. Qed.

  (* ---------- _initialization / _iteration (iter_time around the body) ---------- *)
  Lemma initialization_tie (g : gsearch) k : gs_lvl1 g = c_lvl1 (d_call (gs_res g)) ->
    match g_Search__initialization (drv OP) inner_score clk k g with
    | Ok (g', k') => initialization sp f clk (abs g k) (gs_nth_iter g) = Ok (abs g' k') /\ same_cfg g g' /\ stop_synced g' (gs_stop g)
    | Err e => initialization sp f clk (abs g k) (gs_nth_iter g) = Err e
    end.
  Proof.
    intros HL. unfold g_Search__initialization, g_Search__initialization__body, initialization.
    rewrite tick_abs. cbn [bind].
    unfold gs_init_pos at 1. cbn [gs_opt]. change (d_opt (abs g (S k))) with (gs_opt g).
    replace (gs_opt (g <| gs_best_score := g_pbar_get_score_best (gs_p_bar g) |>)) with (gs_opt g) by (destruct g; reflexivity).
    destruct (o_init_pos OP (gs_opt g)) as [[o1 p]|e]; cbn [bind fst snd]; [|reflexivity].
    set (g1 := g <| gs_best_score := g_pbar_get_score_best (gs_p_bar g) |> <| gs_opt := o1 |>).
    replace ((abs g (S k)) <| d_opt := o1 |>) with (abs g1 (S k)) by (unfold abs, ov, g1; destruct g; destruct gs_res; reflexivity).
    rewrite score_of_abs, gscore_eq.
    replace (gs_res g1) with (gs_res g) by (unfold g1; destruct g; reflexivity).
    destruct (inner_score (gs_res g) p) as [[x sc]|e] eqn:IS; cbn [bind fst snd]; [|reflexivity].
    set (g2 := g1 <| gs_res := x |> <| gs_eval_times := gs_eval_times g1 ++ [clk (S (S k)) - clk (S k)] |>).
    unfold gs_evaluate_init at 1. change (d_opt (abs g2 (S (S (S k))))) with (gs_opt g2).
    replace (gs_opt g2) with o1 by (unfold g2, g1; destruct g; reflexivity).
    destruct (o_eval_init OP o1 sc) as [o2|e]; cbn [bind]; [|reflexivity].
    match goal with |- context[gs_pbar_update _ ?gg ?a ?b ?c] => destruct (gs_pbar_update_tie gg a b c) as (g3 & E3 & S3 & A3 & B3); rewrite E3 end.
    cbn [bind]. unfold gs_stop_update, g_StopRun_update. cbn [bind].
    pose proof (inner_score_call _ _ _ _ IS) as HC. pose proof (inner_score_start _ _ _ _ IS) as HS.
    remember (gs_p_bar g3) as pb3 eqn:Hpb. clear Hpb E3. subst g3.
    unfold stop_synced, same_cfg, abs, ov, pbar_update, g2, g1, tick in *.
    destruct g as [go gr gpb gl gst gsl gpl gbs gni gnit gntt gnis gnts gnin gn get git].
    destruct x as [o rows posl scl nit ntt evt itt ck fc cl st pb mem memn nin nis nts bs bv md].
    cbn in *. subst cl. rewrite <- HL. rewrite A3.
    split; [|split].
    - reflexivity.
    - repeat split; try reflexivity; assumption.
    - reflexivity.
  Qed.
  Lemma iteration_tie (g : gsearch) k : gs_lvl1 g = c_lvl1 (d_call (gs_res g)) ->
    match g_Search__iteration (drv OP) inner_score clk k g with
    | Ok (g', k') => iteration sp f clk (abs g k) (gs_nth_iter g) = Ok (abs g' k') /\ same_cfg g g' /\ stop_synced g' (gs_stop g)
    | Err e => iteration sp f clk (abs g k) (gs_nth_iter g) = Err e
    end.
  Proof.
    intros HL. unfold g_Search__iteration, g_Search__iteration__body, iteration.
    rewrite tick_abs. cbn [bind].
    unfold gs_iterate at 1. cbn [gs_opt]. change (d_opt (abs g (S k))) with (gs_opt g).
    replace (gs_opt (g <| gs_best_score := g_pbar_get_score_best (gs_p_bar g) |>)) with (gs_opt g) by (destruct g; reflexivity).
    destruct (o_iterate OP (gs_opt g)) as [[o1 p]|e]; cbn [bind fst snd]; [|reflexivity].
    set (g1 := g <| gs_best_score := g_pbar_get_score_best (gs_p_bar g) |> <| gs_opt := o1 |>).
    replace ((abs g (S k)) <| d_opt := o1 |>) with (abs g1 (S k)) by (unfold abs, ov, g1; destruct g; destruct gs_res; reflexivity).
    rewrite score_of_abs, gscore_eq.
    replace (gs_res g1) with (gs_res g) by (unfold g1; destruct g; reflexivity).
    destruct (inner_score (gs_res g) p) as [[x sc]|e] eqn:IS; cbn [bind fst snd]; [|reflexivity].
    set (g2 := g1 <| gs_res := x |> <| gs_eval_times := gs_eval_times g1 ++ [clk (S (S k)) - clk (S k)] |>).
    unfold gs_evaluate at 1. change (d_opt (abs g2 (S (S (S k))))) with (gs_opt g2).
    replace (gs_opt g2) with o1 by (unfold g2, g1; destruct g; reflexivity).
    destruct (o_evaluate OP o1 sc) as [o2|e]; cbn [bind]; [|reflexivity].
    match goal with |- context[gs_pbar_update _ ?gg ?a ?b ?c] => destruct (gs_pbar_update_tie gg a b c) as (g3 & E3 & S3 & A3 & B3); rewrite E3 end.
    cbn [bind]. unfold gs_stop_update, g_StopRun_update. cbn [bind].
    pose proof (inner_score_call _ _ _ _ IS) as HC. pose proof (inner_score_start _ _ _ _ IS) as HS.
    remember (gs_p_bar g3) as pb3 eqn:Hpb. clear Hpb E3. subst g3.
    unfold stop_synced, same_cfg, abs, ov, pbar_update, g2, g1, tick in *.
    destruct g as [go gr gpb gl gst gsl gpl gbs gni gnit gntt gnis gnts gnin gn get git].
    destruct x as [o rows posl scl nit ntt evt itt ck fc cl st pb mem memn nin nis nts bs bv md].
    cbn in *. subst cl. rewrite <- HL. rewrite A3.
    split; [|split].
    - reflexivity.
    - repeat split; try reflexivity; assumption.
    - reflexivity.
  Qed.

  (* what a step does to the per-call init counter *)
  Lemma initialization_counts (g : gsearch) k g' k' :
    g_Search__initialization (drv OP) inner_score clk k g = Ok (g', k') -> gs_n_init_search g' = gs_n_init_search g + 1.
  Proof.
    unfold g_Search__initialization, g_Search__initialization__body. cbn [bind]. unfold gs_init_pos at 1.
    destruct (o_init_pos OP _) as [[o1 p]|e]; cbn [bind fst snd]; [|discriminate].
    rewrite gscore_eq. destruct (inner_score _ p) as [[x sc]|e]; cbn [bind fst snd]; [|discriminate].
    unfold gs_evaluate_init at 1. destruct (o_eval_init OP _ sc) as [o2|e]; cbn [bind]; [|discriminate].
    match goal with |- context[gs_pbar_update _ ?gg ?a ?b ?c] => destruct (gs_pbar_update_tie gg a b c) as (g3 & E3 & S3 & _); rewrite E3 end.
    cbn [bind]. unfold gs_stop_update, g_StopRun_update. cbn [bind]. intros H. inversion H; subst. clear H. rewrite S3.
    destruct g; reflexivity.
  Qed.
  Lemma iteration_counts (g : gsearch) k g' k' :
    g_Search__iteration (drv OP) inner_score clk k g = Ok (g', k') -> gs_n_init_search g' = gs_n_init_search g.
  Proof.
    unfold g_Search__iteration, g_Search__iteration__body. cbn [bind]. unfold gs_iterate at 1.
    destruct (o_iterate OP _) as [[o1 p]|e]; cbn [bind fst snd]; [|discriminate].
    rewrite gscore_eq. destruct (inner_score _ p) as [[x sc]|e]; cbn [bind fst snd]; [|discriminate].
    unfold gs_evaluate at 1. destruct (o_evaluate OP _ sc) as [o2|e]; cbn [bind]; [|discriminate].
    match goal with |- context[gs_pbar_update _ ?gg ?a ?b ?c] => destruct (gs_pbar_update_tie gg a b c) as (g3 & E3 & S3 & _); rewrite E3 end.
    cbn [bind]. unfold gs_stop_update, g_StopRun_update. cbn [bind]. intros H. inversion H; subst. clear H. rewrite S3.
    destruct g; reflexivity.
  Qed.

  (* ---------- search_step ---------- *)
  Definition ties (g : gsearch) : Prop :=
    gs_lvl1 g = c_lvl1 (d_call (gs_res g)) /\ gs_n_iter g = c_n_iter (d_call (gs_res g)).

  (* the part of search_step after the initialisation branch (the translator duplicates it into both branches) *)
  Definition step_tail (k : nat) (self : gsearch) : res (gsearch * nat) :=
    if Z.eqb (gs_nth_iter self) (gs_n_init_search self)
    then (do (self, k) <- (do s1 <- gs_finish_initialization (drv OP) self; Ok (s1, k));
          if andb (Z.leb (gs_n_init_search self) (gs_nth_iter self)) (Z.ltb (gs_nth_iter self) (gs_n_iter self))
          then (do (self, k) <- g_Search__iteration (drv OP) inner_score clk k self; Ok (self, k)) else Ok (self, k))
    else (if andb (Z.leb (gs_n_init_search self) (gs_nth_iter self)) (Z.ltb (gs_nth_iter self) (gs_n_iter self))
          then (do (self, k) <- g_Search__iteration (drv OP) inner_score clk k self; Ok (self, k)) else Ok (self, k)).

  Lemma search_step_unfold (g : gsearch) k n :
    g_Search_search_step (drv OP) inner_score clk k g n =
    let self := g <| gs_nth_iter := n |> in
    if Z.ltb (gs_nth_iter self) (gs_n_inits_norm self)
    then (do (self, k) <- g_Search__initialization (drv OP) inner_score clk k self; step_tail k self)
    else step_tail k self.
  Proof. reflexivity. Qed.

  Definition model_tail (s1 : drv OP) (n : Z) : res (drv OP) :=
    do s2 <- (if n =? d_n_init_search s1 then do o' <- o_finish_init OP (d_opt s1); Ok (s1 <| d_opt := o' |>) else Ok s1);
    if (d_n_init_search s2 <=? n) && (n <? c_n_iter (d_call s2)) then iteration sp f clk s2 n else Ok s2.

  Lemma step_tail_tie (g : gsearch) k : ties g ->
    match step_tail k g with
    | Ok (g', k') => model_tail (abs g k) (gs_nth_iter g) = Ok (abs g' k') /\ same_cfg g g' /\
                     (gs_n_init_search g' = gs_n_init_search g) /\
                     (gs_n_init_search g <= gs_nth_iter g -> gs_nth_iter g < gs_n_iter g -> stop_synced g' (gs_stop g))
    | Err e => model_tail (abs g k) (gs_nth_iter g) = Err e
    end.
  Proof.
    intros [HL HN]. unfold step_tail, model_tail.
    change (d_n_init_search (abs g k)) with (gs_n_init_search g). change (d_opt (abs g k)) with (gs_opt g).
    assert (FIN : forall o', (abs g k) <| d_opt := o' |> = abs (g <| gs_opt := o' |>) k)
      by (intros o'; unfold abs, ov; destruct g; destruct gs_res; reflexivity).
    assert (ITER : forall g1 : gsearch, same_cfg g g1 -> gs_n_init_search g1 = gs_n_init_search g -> gs_stop g1 = gs_stop g ->
      match (if andb (Z.leb (gs_n_init_search g1) (gs_nth_iter g1)) (Z.ltb (gs_nth_iter g1) (gs_n_iter g1))
             then (do (self, k0) <- g_Search__iteration (drv OP) inner_score clk k g1; Ok (self, k0)) else Ok (g1, k)) with
      | Ok (g', k') => (if (d_n_init_search (abs g1 k) <=? gs_nth_iter g) && (gs_nth_iter g <? c_n_iter (d_call (abs g1 k)))
                        then iteration sp f clk (abs g1 k) (gs_nth_iter g) else Ok (abs g1 k)) = Ok (abs g' k') /\ same_cfg g g' /\
                       (gs_n_init_search g' = gs_n_init_search g) /\
                       (gs_n_init_search g <= gs_nth_iter g -> gs_nth_iter g < gs_n_iter g -> stop_synced g' (gs_stop g))
      | Err e => (if (d_n_init_search (abs g1 k) <=? gs_nth_iter g) && (gs_nth_iter g <? c_n_iter (d_call (abs g1 k)))
                  then iteration sp f clk (abs g1 k) (gs_nth_iter g) else Ok (abs g1 k)) = Err e
      end).
    { intros g1 (C1 & C2 & C3 & C4 & C5 & C6) CI CS.
      change (d_n_init_search (abs g1 k)) with (gs_n_init_search g1).
      replace (d_call (abs g1 k)) with (d_call (gs_res g1)) by (unfold abs, ov; destruct (gs_res g1); reflexivity).
      rewrite C4, C5, C2, <- HN, CI.
      destruct ((gs_n_init_search g <=? gs_nth_iter g) && (gs_nth_iter g <? gs_n_iter g)) eqn:CND.
      - pose proof (iteration_tie g1 k ltac:(rewrite C1, C5; exact HL)) as T. pose proof (iteration_counts g1 k) as CNT.
        destruct (g_Search__iteration (drv OP) inner_score clk k g1) as [[g2 k2]|e]; cbn [bind].
        + destruct T as (T1 & (D1 & D2 & D3 & D4 & D5 & D6) & T3). rewrite C4 in T1. split; [exact T1|]. split.
          * unfold same_cfg. repeat split; congruence.
          * split; [rewrite (CNT g2 k2 eq_refl); exact CI|]. intros _ _. rewrite <- CS. exact T3.
        + rewrite C4 in T. exact T.
      - split; [reflexivity|]. split; [unfold same_cfg; repeat split; assumption|]. split; [exact CI|].
        intros A B. apply andb_false_iff in CND. destruct CND as [X|X]; [apply Z.leb_gt in X|apply Z.ltb_ge in X]; lia. }
    destruct (gs_nth_iter g =? gs_n_init_search g).
    - unfold gs_finish_initialization. destruct (o_finish_init OP (gs_opt g)) as [o'|e]; cbn [bind]; [|reflexivity].
      rewrite FIN. apply ITER; [unfold same_cfg; destruct g; cbn; repeat split; reflexivity| destruct g; reflexivity | destruct g; reflexivity].
    - cbn [bind]. apply ITER; [unfold same_cfg; repeat split; reflexivity|reflexivity|reflexivity].
  Qed.

  Lemma search_step_model (s : drv OP) n :
    search_step sp f clk s n =
    do s1 <- (if n <? d_n_inits_norm s then initialization sp f clk s n else Ok s); model_tail s1 n.
  Proof. reflexivity. Qed.

  Lemma abs_nth (g : gsearch) k n : abs (g <| gs_nth_iter := n |>) k = abs g k.
  Proof. unfold abs, ov. destruct g. reflexivity. Qed.

  Lemma ties_same (g g' : gsearch) : same_cfg g g' -> ties g -> ties g'.
  Proof. intros (C1 & C2 & C3 & C4 & C5 & C6) [HL HN]. unfold ties. rewrite C1, C2, C5. split; assumption. Qed.

  Theorem search_step_tie (g : gsearch) k n : ties g ->
    match g_Search_search_step (drv OP) inner_score clk k g n with
    | Ok (g', k') => search_step sp f clk (abs g k) n = Ok (abs g' k') /\ same_cfg (g <| gs_nth_iter := n |>) g' /\
                     gs_n_init_search g' <= gs_n_init_search g + 1 /\
                     (gs_n_init_search g <= n -> n < gs_n_iter g -> stop_synced g' (gs_stop g))
    | Err e => search_step sp f clk (abs g k) n = Err e
    end.
  Proof.
    intros T. rewrite search_step_unfold, search_step_model. cbv zeta.
    set (g0 := g <| gs_nth_iter := n |>).
    assert (T0 : ties g0) by (destruct T as [HL HN]; unfold ties, g0; destruct g; exact (conj HL HN)).
    change (gs_nth_iter g0) with n. change (gs_n_inits_norm g0) with (gs_n_inits_norm g).
    change (d_n_inits_norm (abs g k)) with (gs_n_inits_norm g). rewrite <- (abs_nth g k n). fold g0.
    destruct (n <? gs_n_inits_norm g) eqn:INI.
    - pose proof (initialization_tie g0 k (proj1 T0)) as I. pose proof (initialization_counts g0 k) as CNT.
      change (gs_nth_iter g0) with n in I.
      destruct (g_Search__initialization (drv OP) inner_score clk k g0) as [[g1 k1]|e]; cbn [bind]; [|rewrite I; reflexivity].
      destruct I as (I1 & I2 & I3). rewrite I1. cbn [bind].
      pose proof (step_tail_tie g1 k1 (ties_same _ _ I2 T0)) as TT.
      assert (N1 : gs_nth_iter g1 = n) by (destruct I2 as (_ & _ & _ & X & _); exact X).
      rewrite N1 in TT.
      destruct (step_tail k1 g1) as [[g2 k2]|e] eqn:ST; [|exact TT].
      destruct TT as (A & B & C & D). split; [exact A|]. split.
      + destruct I2 as (C1 & C2 & C3 & C4 & C5 & C6). destruct B as (D1 & D2 & D3 & D4 & D5 & D6). unfold same_cfg. repeat split; congruence.
      + split; [rewrite C, (CNT g1 k1 eq_refl); unfold g0; destruct g; cbn; lia|].
        intros H1 H2.
        (* the initialisation step synchronised the stop object; the tail either leaves it or synchronises it again *)
        assert (SG : gs_stop g0 = gs_stop g) by (unfold g0; destruct g; reflexivity).
        destruct (Z.leb_spec (gs_n_init_search g1) n) as [LE|GT].
        * assert (NI : gs_n_iter g1 = gs_n_iter g) by (destruct I2 as (_ & X & _); rewrite X; unfold g0; destruct g; reflexivity).
          specialize (D LE ltac:(lia)). unfold stop_synced in *. rewrite D, I3, SG. destruct (gs_stop g); reflexivity.
        * (* n_init_search g1 = n + 1 > n: no iteration ran in the tail: stop, bar and score_l are those after the initialisation *)
          assert (E : step_tail k1 g1 = Ok (g1, k1)).
          { unfold step_tail. rewrite N1. destruct (Z.eqb_spec n (gs_n_init_search g1)); [lia|].
            destruct (Z.leb_spec (gs_n_init_search g1) n); [lia|]. reflexivity. }
          rewrite E in ST. inversion ST; subst g2 k2. rewrite <- SG. exact I3.
    - cbn [bind].
      pose proof (step_tail_tie g0 k T0) as TT. change (gs_nth_iter g0) with n in TT.
      destruct (step_tail k g0) as [[g2 k2]|e]; [|exact TT].
      destruct TT as (A & B & C & D). split; [exact A|]. split; [exact B|].
      split; [rewrite C; unfold g0; destruct g; cbn; lia|].
      intros H1 H2. assert (SG : gs_stop g0 = gs_stop g) by (unfold g0; destruct g; reflexivity). rewrite <- SG. apply D.
      + unfold g0; destruct g; exact H1.
      + unfold g0; destruct g; exact H2.
  Qed.

  (* ---------- the loop of search(): for nth_trial in range(n_iter): search_step; if stop.check(): break ---------- *)
  Variables pa pr : bool.     (* how an absent tolerance is spelled in the early_stopping dictionary (missing key / None) *)

  Definition stop_shape (g : gsearch) : Prop :=
    exists b0 sl0, gs_stop g = stop_of (c_stop (d_call (gs_res g))) pa pr (d_start (gs_res g)) b0 sl0.
  Definition stop_wf (g : gsearch) : Prop :=
    forall e, st_early (c_stop (d_call (gs_res g))) = Some e -> rel_wf e /\ early_nonempty e pa pr.

  Definition loop_body (st : gsearch * nat) (nth : Z) : res ((gsearch * nat) * bool) :=
    let '(self, k) := st in
    do (self, k) <- g_Search_search_step (drv OP) inner_score clk k self nth;
    do ((self, tmp2), k) <- gs_stop_check (drv OP) clk k self; Ok ((self, k), tmp2).

  Lemma search_loop_unfold (g : gsearch) k n :
    g_Search_search_loop (drv OP) inner_score clk k g n =
    do (self, k) <- py_for_break loop_body (py_range n) (g, k); Ok (self, k).
  Proof. reflexivity. Qed.

  Lemma stop_check_tie (g : gsearch) k : stop_wf g ->
    gs_stop g = stop_of (c_stop (d_call (gs_res g))) pa pr (d_start (gs_res g)) (pb_score_best_ (gs_p_bar g)) (gs_score_l g) ->
    match gs_stop_check (drv OP) clk k g with
    | Ok ((g', b), k') => stop_check clk (abs g k) = Ok (b, abs g' k') /\ g' = g
    | Err e => stop_check clk (abs g k) = Err e
    end.
  Proof.
    intros WF HS. unfold gs_stop_check, stop_check. rewrite HS.
    rewrite (check_tie clk k _ pa pr _ _ _ WF). cbv zeta.
    replace (d_call (abs g k)) with (d_call (gs_res g)) by (unfold abs, ov; destruct (gs_res g); reflexivity).
    replace (d_start (abs g k)) with (d_start (gs_res g)) by (unfold abs, ov; destruct (gs_res g); reflexivity).
    change (pb_best (d_pbar (abs g k))) with (pb_score_best_ (gs_p_bar g)).
    change (d_score_l (abs g k)) with (gs_score_l g).
    destruct (check_reads_clock (c_stop (d_call (gs_res g)))) eqn:RD.
    - rewrite tick_abs.
      destruct (check (c_stop (d_call (gs_res g))) (d_start (gs_res g)) (clk k) (pb_score_best_ (gs_p_bar g)) (gs_score_l g)) as [b|e];
        cbn [bind fst snd]; [|reflexivity].
      split; [reflexivity|]. rewrite <- HS. destruct g; reflexivity.
    - assert (E : forall now, check (c_stop (d_call (gs_res g))) (d_start (gs_res g)) now (pb_score_best_ (gs_p_bar g)) (gs_score_l g) =
                  check (c_stop (d_call (gs_res g))) (d_start (gs_res g)) (clk k) (pb_score_best_ (gs_p_bar g)) (gs_score_l g)).
      { intros now. unfold check, check_reads_clock in *. destruct (st_max_time (c_stop (d_call (gs_res g)))) as [t|]; [|reflexivity].
        apply negb_false_iff in RD. unfold time_exceeded. rewrite RD. reflexivity. }
      rewrite (E 0).
      destruct (check (c_stop (d_call (gs_res g))) (d_start (gs_res g)) (clk k) (pb_score_best_ (gs_p_bar g)) (gs_score_l g)) as [b|e];
        cbn [bind fst snd]; [|reflexivity].
      split; [reflexivity|]. rewrite <- HS. destruct g; reflexivity.
  Qed.

  Lemma synced_shape (g g' : gsearch) : stop_shape g -> stop_synced g' (gs_stop g) ->
    d_call (gs_res g') = d_call (gs_res g) -> d_start (gs_res g') = d_start (gs_res g) ->
    gs_stop g' = stop_of (c_stop (d_call (gs_res g'))) pa pr (d_start (gs_res g')) (pb_score_best_ (gs_p_bar g')) (gs_score_l g').
  Proof. intros (b0 & sl0 & E) S C D. unfold stop_synced in S. rewrite S, E, C, D. reflexivity. Qed.

  Theorem search_loop_tie : forall todo (a : nat) (g : gsearch) k,
    ties g -> stop_wf g -> stop_shape g -> gs_n_init_search g <= Z.of_nat a -> Z.of_nat a + Z.of_nat todo <= gs_n_iter g ->
    match py_for_break loop_body (map Z.of_nat (seq a todo)) (g, k) with
    | Ok (g', k') => loop sp f clk todo (Z.of_nat a) (abs g k) = Ok (abs g' k')
    | Err e => loop sp f clk todo (Z.of_nat a) (abs g k) = Err e
    end.
  Proof.
    induction todo as [|todo IH]; intros a g k T WF SH NI LE; [reflexivity|].
    cbn [seq map py_for_break loop]. unfold loop_body at 1.
    pose proof (search_step_tie g k (Z.of_nat a) T) as ST.
    destruct (g_Search_search_step (drv OP) inner_score clk k g (Z.of_nat a)) as [[g1 k1]|e]; cbn [bind]; [|rewrite ST; reflexivity].
    destruct ST as (S1 & (C1 & C2 & C3 & C4 & C5 & C6) & S3 & S4). rewrite S1. cbn [bind].
    assert (G5 : d_call (gs_res g1) = d_call (gs_res g)) by (rewrite C5; destruct g; reflexivity).
    assert (G6 : d_start (gs_res g1) = d_start (gs_res g)) by (rewrite C6; destruct g; reflexivity).
    assert (G2 : gs_n_iter g1 = gs_n_iter g) by (rewrite C2; destruct g; reflexivity).
    assert (G1 : gs_lvl1 g1 = gs_lvl1 g) by (rewrite C1; destruct g; reflexivity).
    assert (T1 : ties g1) by (destruct T as [HL HN]; unfold ties; rewrite G1, G2, G5; split; assumption).
    assert (WF1 : stop_wf g1) by (unfold stop_wf in *; rewrite G5; exact WF).
    pose proof (synced_shape g g1 SH (S4 NI ltac:(lia)) G5 G6) as HS1.
    pose proof (stop_check_tie g1 k1 WF1 HS1) as CK.
    destruct (gs_stop_check (drv OP) clk k1 g1) as [[[g2 b] k2]|e]; cbn [bind]; [|rewrite CK; reflexivity].
    destruct CK as (CK1 & ->). rewrite CK1. cbn [bind fst snd].
    destruct b; [reflexivity|].
    replace (Z.of_nat a + 1) with (Z.of_nat (S a)) by lia.
    apply IH; try assumption.
    - unfold stop_shape. eexists. eexists. exact HS1.
    - lia.
    - rewrite G2. lia.
  Qed.

  (* ---------- a whole search() call: model init_search, GENERATED loop, model finish_search ----------
     init_search / finish_search are the hand model (their source bodies are pinned by digest); everything in between is the
     generated code.  Whenever the object after init_search is represented by a generated state g (abs g k) whose stop object
     was built from the call's settings, the run of the generated loop followed by finish_search IS the model's search(): every
     theorem about `search` (C03 accounting, C12 / C13 / C14 exact stopping, C04 rows, C05 best, ...) speaks about it *)
  Theorem source_search_is_model_search (s : drv OP) (c : call) (g : gsearch) k g' k' s' :
    init_search sp clk s c = Ok (abs g k) ->
    ties g -> stop_wf g -> stop_shape g -> gs_n_init_search g <= 0 -> gs_n_iter g = c_n_iter c -> 0 <= c_n_iter c ->
    g_Search_search_loop (drv OP) inner_score clk k g (c_n_iter c) = Ok (g', k') ->
    finish_search sp (abs g' k') = Ok s' ->
    search sp f clk s c = Ok s'.
  Proof.
    intros HI T WF SH NI NN N0 HL HF. unfold search. rewrite HI. cbn [bind].
    rewrite search_loop_unfold in HL. unfold py_range in HL.
    pose proof (search_loop_tie (Z.to_nat (c_n_iter c)) 0%nat g k T WF SH NI ltac:(rewrite NN; lia)) as LT.
    change (Z.of_nat 0) with 0 in LT.
    destruct (py_for_break loop_body (map Z.of_nat (seq 0 (Z.to_nat (c_n_iter c)))) (g, k)) as [[g1 k1]|e]; cbn [bind] in HL; [|discriminate].
    inversion HL; subst g1 k1. rewrite LT. cbn [bind]. exact HF.
  Qed.
End Tie.
