(* FinishTie.v — Search.finish_search GENERATED from /repo's search.py (generated/FinishGen.v) equals the model's Driver.finish_search:
   the published best_score / best_value are the progress bar's, best_para is value2para of best_value, memory_dict is the memory
   object's dictionary exactly when memory is on. *)
Require Import Base PyPrims PyPrimsQ StopRun Converter Driver DriverGen DriverTie FinishGen.
From RecordUpdate Require Import RecordSet.
Import RecordSetNotations.
Open Scope Z_scope.

Section FinishTie.
  Context {OP : optimizer}.
  Variable sp : space.
  Variable names : list Z.

  (* the generated object's view of a model state s whose progress bar is (the abstraction of) g *)
  Definition fin_of (s : drv OP) (g : g_pbar) : g_fin :=
    mkGFin g (c_memory (d_call s)) (d_mem s) (d_best_score s) (d_best_value s) None (d_memory_dict s).

  Theorem finish_search_tie (s : drv OP) (g : g_pbar) : abs_pb g = d_pbar s ->
    match g_Search_finish_search sp names (fin_of s g) with
    | Ok f => exists s', finish_search sp s = Ok s' /\
                         d_best_score s' = fn_best_score f /\ d_best_value s' = fn_best_value f /\ d_memory_dict s' = fn_memory_dict f /\
                         fn_best_para f = option_map (value2para names) (fn_best_value f)
    | Err e => finish_search sp s = Err e
    end.
  Proof.
    intros HA. unfold g_Search_finish_search, finish_search, fin_of. rewrite <- HA. cbn [abs_pb pb_pos pb_best fn_p_bar].
    unfold fg_position2value. cbn.
    destruct (pb_pos_best g) as [p|]; cbn [bind].
    - destruct (position2value sp p) as [v|e]; cbn [bind]; [|reflexivity].
      destruct (c_memory (d_call s)); cbn; eexists; (split; [reflexivity|]); destruct s; cbn; repeat split.
    - destruct (c_memory (d_call s)); cbn; eexists; (split; [reflexivity|]); destruct s; cbn; repeat split.
  Qed.

  (* C05's last clause for the generated code: the published best value decodes the progress bar's best position *)
  Theorem source_finish_decodes_best (f0 f : g_fin) p :
    g_Search_finish_search sp names f0 = Ok f -> pb_pos_best (fn_p_bar f0) = Some p ->
    exists v, position2value sp p = Ok v /\ fn_best_value f = Some v /\ fn_best_para f = Some (value2para names v) /\
              fn_best_score f = pb_score_best_ (fn_p_bar f0).
  Proof.
    unfold g_Search_finish_search, fg_position2value. cbn. intros E HP. rewrite HP in E. cbn [bind] in E.
    destruct (position2value sp p) as [v|e]; cbn [bind] in E; [|discriminate]. exists v. split; [reflexivity|].
    destruct (fn_memory_on f0); cbn in E; inversion E; subst; cbn; repeat split.
  Qed.
End FinishTie.
