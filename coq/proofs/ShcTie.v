(* ShcTie.v — StochasticHillClimbingOptimizer.evaluate (and SimulatedAnnealingOptimizer.evaluate) GENERATED from /repo's source
   (generated/ShcGen.v) equals the KStochastic / KAnnealing branch of Algos.algo_evaluate: the family theorems about algo_optimizer
   (C01 / C02 / C19 / C09) are therefore about what the source's evaluate says now. *)
Require Import Base PyPrims PyPrimsQ Converter CoreOpt Tracker Algos ShcGen.
From RecordUpdate Require Import RecordSet.
Import RecordSetNotations.
Open Scope Z_scope.

Section ShcTie.
  Variable c : algo_cfg.

  Definition shc_of (st : algo_state) (n1 n2 : Z) : g_shc := mkGShc (h_trk st) (h_tape st) (a_nn c) n1 n2.

  (* the stochastic branch of the model, on its own *)
  Definition model_stochastic (st : algo_state) (s : score) : res algo_state :=
    let k := h_trk st in
    if sle s (t_score_cur k) then
      let k1 := set_score_new k s in
      do kt <- transition_body (h_tape st) k1 s;
      Ok (st <| h_trk := (fst kt) <| t_nth_trial ::= Z.succ |> |> <| h_tape := snd kt |>)
    else do k' <- hc_evaluate (a_nn c) k s; Ok (st <| h_trk := k' |>).

  Lemma algo_evaluate_stochastic st s : a_kind c = KStochastic \/ a_kind c = KAnnealing -> algo_evaluate c st s = model_stochastic st s.
  Proof. intros [H | H]; unfold algo_evaluate, model_stochastic; rewrite H; reflexivity. Qed.

  Theorem shc_evaluate_tie (st : algo_state) (s : score) n1 n2 :
    a_kind c = KStochastic \/ a_kind c = KAnnealing ->
    match g_SHC_evaluate (shc_of st n1 n2) s with
    | Ok g' => algo_evaluate c st s = Ok (st <| h_trk := sh_trk g' |> <| h_tape := sh_tape g' |>) /\ sh_nn g' = a_nn c
    | Err e => algo_evaluate c st s = Err e
    end.
  Proof.
    intros HK. rewrite (algo_evaluate_stochastic st s HK). unfold model_stochastic, g_SHC_evaluate, shc_of.
    destruct st as [k inits t cc]. cbn [h_trk h_tape sh_trk].
    destruct (sle s (t_score_cur k)); cbn [bind].
    - unfold g_SHC_transition, sh_track_new_score, g_SHC_transition_body, sh_p_accept, transition_body,
        g_SHC_consider, g_PT_considered_transitions, g_SHC_consider_body, sh_accept,
        g_SHC_execute_transition, g_PT_transitions, g_SHC_execute_transition_body, sh_new2current.
      destruct t as [|d t1]; [reflexivity|].
      assert (X : exists p, xreal_of_draw d = Ok p) by (destruct d; eexists; reflexivity). destruct X as [p Hp].
      cbn -[set_score_new new2current accept xreal_of_draw]. rewrite Hp. cbn -[set_score_new new2current accept xreal_of_draw].
      destruct t1 as [|[z| um ue | | |] t2]; cbn -[set_score_new new2current accept xreal_of_draw]; try reflexivity.
      destruct (accept p um ue); cbn -[set_score_new new2current]; split; reflexivity.
    - unfold sh_hc_evaluate. cbn [sh_trk sh_nn]. destruct (hc_evaluate (a_nn c) k s) as [k'|e]; cbn [bind]; [|reflexivity]. cbn. split; reflexivity.
  Qed.

  (* SimulatedAnnealingOptimizer.evaluate is the same function (the temperature update only shapes later oracle values) *)
  Theorem sa_evaluate_tie (st : algo_state) (s : score) n1 n2 :
    a_kind c = KStochastic \/ a_kind c = KAnnealing ->
    match g_SA_evaluate (shc_of st n1 n2) s with
    | Ok g' => algo_evaluate c st s = Ok (st <| h_trk := sh_trk g' |> <| h_tape := sh_tape g' |>) /\ sh_nn g' = a_nn c
    | Err e => algo_evaluate c st s = Err e
    end.
  Proof. exact (shc_evaluate_tie st s n1 n2). Qed.

  (* what the source's acceptance step does, stated directly: a worse-or-equal score moves `current` to the new position exactly when the
     oracle probability beats the uniform draw; the counters count considered / executed transitions *)
  Theorem source_transition_spec (g : g_shc) (s : score) d um ue t2 p :
    sh_tape g = d :: DF um ue :: t2 -> xreal_of_draw d = Ok p -> sle s (t_score_cur (sh_trk g)) = true ->
    g_SHC_evaluate g s =
    Ok (g <| sh_trk := (if accept p um ue then new2current (set_score_new (sh_trk g) s) else set_score_new (sh_trk g) s) <| t_nth_trial ::= Z.succ |> |>
          <| sh_tape := t2 |>
          <| sh_n_considered_transitions := sh_n_considered_transitions g + 1 |>
          <| sh_n_transitions := (if accept p um ue then sh_n_transitions g + 1 else sh_n_transitions g) |>).
  Proof.
    intros HT HP HS. unfold g_SHC_evaluate. cbn beta. rewrite HS.
    unfold g_SHC_transition, sh_track_new_score, g_SHC_transition_body, sh_p_accept, g_SHC_consider, g_PT_considered_transitions, g_SHC_consider_body, sh_accept,
      g_SHC_execute_transition, g_PT_transitions, g_SHC_execute_transition_body, sh_new2current.
    destruct g as [k t nn n1 n2]. cbn in HT. subst t. cbn -[set_score_new new2current accept xreal_of_draw]. rewrite HP.
    cbn -[set_score_new new2current accept]. destruct (accept p um ue); cbn -[set_score_new new2current]; reflexivity.
  Qed.
  (* C19 for the generated acceptance step: after it, the tracked current pair is either the pair just evaluated (proposal, its score) or the
     previous current pair -- nothing else; the tracked best pair is untouched *)
  Theorem source_transition_grounded (g g' : g_shc) (s : score) :
    sle s (t_score_cur (sh_trk g)) = true -> g_SHC_evaluate g s = Ok g' ->
    ((t_pos_cur (sh_trk g') = t_pos_new (sh_trk g) /\ t_score_cur (sh_trk g') = s) \/
     (t_pos_cur (sh_trk g') = t_pos_cur (sh_trk g) /\ t_score_cur (sh_trk g') = t_score_cur (sh_trk g))) /\
    t_pos_best (sh_trk g') = t_pos_best (sh_trk g) /\ t_score_best (sh_trk g') = t_score_best (sh_trk g).
  Proof.
    intros HS E. destruct g as [k t nn n1 n2]. cbn [sh_trk] in *.
    assert (U : g_SHC_evaluate (mkGShc k t nn n1 n2) s =
                match t with
                | d :: DF um ue :: t2 => g_SHC_evaluate (mkGShc k t nn n1 n2) s
                | _ => Err OutOfTape
                end).
    { destruct t as [|d [|[z| um ue | | |] t2]]; try reflexivity;
        unfold g_SHC_evaluate; cbn beta; cbn [sh_trk]; rewrite HS;
        unfold g_SHC_transition, sh_track_new_score, g_SHC_transition_body, sh_p_accept, g_SHC_consider, g_PT_considered_transitions, g_SHC_consider_body, sh_accept;
        cbn -[set_score_new new2current accept xreal_of_draw]; try reflexivity;
        (assert (X : exists p, xreal_of_draw d = Ok p) by (destruct d; eexists; reflexivity)); destruct X as [p Hp]; rewrite Hp; reflexivity. }
    rewrite U in E. destruct t as [|d [|[z| um ue | | |] t2]]; try discriminate.
    assert (X : exists p, xreal_of_draw d = Ok p) by (destruct d; eexists; reflexivity). destruct X as [p Hp].
    rewrite (source_transition_spec (mkGShc k (d :: DF um ue :: t2) nn n1 n2) s d um ue t2 p eq_refl Hp HS) in E. inversion E; subst g'. clear E.
    cbn [sh_trk]. unfold set_score_new, new2current. destruct (accept p um ue); destruct (is_finite s); destruct k; cbn; auto.
  Qed.
End ShcTie.
