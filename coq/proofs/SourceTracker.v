(* SourceTracker.v — C19 / C15 for the definitions GENERATED from /repo's source (generated/TrackerGen.v), obtained
   through the tie of TrackerTie.v: every state reachable by any sequence of (propose, evaluate) steps of the
   translated code keeps its tracked pairs among the evaluated pairs, and its valid lists aligned and finite. *)
Require Import Base PyPrims Converter CoreOpt Tracker Algos Driver DriverFacts CoreFacts AlgoFacts TrackerGen TrackerTie.
From RecordUpdate Require Import RecordSet.
Import RecordSetNotations.

(* ---------- the hand model's evaluate variants keep grounding (one lemma each) ---------- *)
Lemma evaluate_init_grounded k H p s k' : t_pos_new k = Some p -> grounded k H ->
  evaluate_init k s = Ok k' -> grounded k' (H ++ [(p, s)]).
Proof.
  intros Hp G E. unfold evaluate_init in E. eapply (track_grounded evaluate_init_body k H p s k'); [|exact Hp|exact G|exact E].
  intros k0 k1 Hp0 _ Hin G0 Hb. unfold evaluate_init_body in Hb. inversion Hb; subst. clear Hb. destruct G0 as [A B C].
  destruct (t_pos_best k0) eqn:Eb; destruct (t_pos_cur _) eqn:Ec; cbn in *; constructor; cbn; auto;
    try rewrite Hp0; cbn; auto; try (rewrite Ec in *; auto); try (rewrite Eb in *; auto).
Qed.

Lemma hc_evaluate_grounded n k H p s k' : t_pos_new k = Some p -> grounded k H ->
  hc_evaluate n k s = Ok k' -> grounded k' (H ++ [(p, s)]).
Proof.
  intros Hp G E. unfold hc_evaluate in E. eapply (track_grounded (hc_evaluate_body n)); [|exact Hp|exact G|exact E].
  intros k0 k1 Hp0 _ Hin G0 Hb. eapply hc_body_grounded; eauto.
Qed.

Lemma base_tracked_grounded k H p s k' : t_pos_new k = Some p -> grounded k H ->
  base_evaluate_tracked k s = Ok k' -> grounded k' (H ++ [(p, s)]).
Proof.
  intros Hp G E. unfold base_evaluate_tracked in E. eapply (track_grounded (fun t s => Ok (base_evaluate t s))); [|exact Hp|exact G|exact E].
  intros k0 k1 Hp0 _ Hin G0 Hb. inversion Hb; subst. eapply grounded_base; eauto.
Qed.

Lemma spiral_evaluate_grounded k H p s k' : t_pos_new k = Some p -> grounded k H ->
  spiral_evaluate k s = Ok k' -> grounded k' (H ++ [(p, s)]).
Proof.
  intros Hp G E. unfold spiral_evaluate in E. eapply (track_grounded (fun t s => Ok (evaluate_current2best (new2current t)))); [|exact Hp|exact G|exact E].
  intros k0 k1 Hp0 Hs0 Hin G0 Hb. inversion Hb; subst k1. clear Hb. destruct G0 as [A B C].
  unfold evaluate_current2best, new2current. cbn.
  destruct (sgt (t_score_new k0) (t_score_best k0)); constructor; cbn; auto; rewrite Hp0, Hs0; cbn; assumption.
Qed.

(* ---------- runs of the generated code ---------- *)
Inductive sop := SInit (p : pos) (s : score) | SHill (p : pos) (s : score) | SSpiral (p : pos) (s : score) | SBase (p : pos) (s : score).
Definition sop_pair (o : sop) : pos * score := match o with SInit p s | SHill p s | SSpiral p s | SBase p s => (p, s) end.

(* one driver step on the generated code: the proposal is recorded by the track_new_pos decorator, then the
   score of THAT proposal is handed to the (decorated) evaluate method *)
Definition sstep (g : gst) (o : sop) : res gst :=
  match o with
  | SInit p s => do g1 <- g_SearchTracker_track_new_pos g p; g_CoreOptimizer_evaluate_init g1 s
  | SHill p s => do g1 <- g_SearchTracker_track_new_pos g p; g_HillClimbingOptimizer_evaluate g1 s
  | SSpiral p s => do g1 <- g_SearchTracker_track_new_pos g p; g_Spiral_evaluate g1 s
  | SBase p s => do g1 <- g_SearchTracker_track_new_pos g p; g_SearchTracker_track_new_score g_BaseOptimizer_evaluate g1 s
  end.
Fixpoint srun (g : gst) (ops : list sop) : res gst :=
  match ops with [] => Ok g | o :: r => do g1 <- sstep g o; srun g1 r end.

Lemma rres_ok r r' nn g' : rres r r' nn -> r = Ok g' -> r' = Ok (abs g') /\ ginv g' /\ f_n_neighbours g' = nn.
Proof. intros H ->. destruct r' as [t|e]; cbn in H; [|contradiction]. destruct H as (A & I & N). subst t. auto. Qed.

Lemma sstep_grounded g o g' H : ginv g -> 0 <= f_n_neighbours g -> grounded (abs g) H -> sstep g o = Ok g' ->
  grounded (abs g') (H ++ [sop_pair o]) /\ ginv g' /\ f_n_neighbours g' = f_n_neighbours g.
Proof.
  intros I Hn G E.
  assert (T := fun p => track_new_pos_tie g p I).
  destruct o as [p s|p s|p s|p s]; cbn [sstep sop_pair] in *; specialize (T p);
    destruct (g_SearchTracker_track_new_pos g p) as [g1|e] eqn:E1; cbn [bind] in E; try discriminate;
    cbn in T; destruct T as (A1 & I1 & N1);
    assert (Hp : t_pos_new (abs g1) = Some p) by (rewrite A1; reflexivity);
    assert (G1 : grounded (abs g1) H) by (rewrite A1; destruct G as [a b c]; constructor; assumption).
  - destruct (rres_ok _ _ _ g' (evaluate_init_tie g1 s I1) E) as (R & I2 & N2).
    split; [eapply evaluate_init_grounded; eauto|split; [exact I2|congruence]].
  - destruct (rres_ok _ _ _ g' (hc_evaluate_tie g1 s I1 ltac:(lia)) E) as (R & I2 & N2).
    split; [eapply hc_evaluate_grounded; eauto|split; [exact I2|congruence]].
  - destruct (rres_ok _ _ _ g' (spiral_evaluate_tie g1 s I1) E) as (R & I2 & N2).
    split; [eapply spiral_evaluate_grounded; eauto|split; [exact I2|congruence]].
  - destruct (rres_ok _ _ _ g' (base_evaluate_tracked_tie g1 s I1) E) as (R & I2 & N2).
    split; [eapply base_tracked_grounded; eauto|split; [exact I2|congruence]].
Qed.

Theorem srun_grounded : forall ops g g' H, ginv g -> 0 <= f_n_neighbours g -> grounded (abs g) H -> srun g ops = Ok g' ->
  grounded (abs g') (H ++ map sop_pair ops) /\ ginv g'.
Proof.
  induction ops as [|o ops IH]; intros g g' H I Hn G E; cbn [srun map] in *.
  - inversion E; subst. rewrite app_nil_r. auto.
  - destruct (sstep g o) as [g1|e] eqn:E1; cbn [bind] in E; [|discriminate].
    destruct (sstep_grounded g o g1 H I Hn G E1) as (G1 & I1 & N1).
    destruct (IH g1 g' (H ++ [sop_pair o]) I1 ltac:(lia) G1 E) as (G2 & I2).
    rewrite <- app_assoc in G2. auto.
Qed.

Lemma grounded_init n : grounded (abs (g_init n)) [].
Proof. constructor; cbn; auto. Qed.

(* from the freshly constructed tracker: every reachable state of the generated code is grounded in the pairs it
   was given, and its valid lists are aligned and hold finite scores only *)
Theorem source_tracker_grounded n ops g : 0 <= n -> srun (g_init n) ops = Ok g ->
  grounded (abs g) (map sop_pair ops) /\
  length (f_positions_valid g) = length (f_scores_valid g) /\ Forall (fun s => is_finite s = true) (f_scores_valid g).
Proof.
  intros Hn E. destruct (srun_grounded ops (g_init n) g [] (ginv_init n) Hn (grounded_init n) E) as (G & I). auto.
Qed.

(* the tracked best of the generated code never decreases along a run (greedy adoption only) *)
Require Import AlgoLift.

(* ---------- C15 for the generated code: no score makes the translated evaluate methods raise ---------- *)
Lemma rres_total r r' nn : rres r r' nn -> (exists t, r' = Ok t) -> exists g', r = Ok g' /\ ginv g' /\ f_n_neighbours g' = nn.
Proof. intros H [t ->]. destruct r as [g'|e]; cbn in H; [|contradiction]. destruct H as (_ & I & N). eauto. Qed.

Theorem source_hc_evaluate_total g s : ginv g -> 1 <= f_n_neighbours g ->
  exists g', g_HillClimbingOptimizer_evaluate g s = Ok g' /\ ginv g' /\ f_n_neighbours g' = f_n_neighbours g.
Proof.
  intros I Hn. apply (rres_total _ _ _ (hc_evaluate_tie g s I ltac:(lia))).
  destruct (hc_evaluate_total (f_n_neighbours g) (abs g) s Hn) as [k' E]. eauto.
Qed.

Lemma sstep_total g o : ginv g -> 1 <= f_n_neighbours g ->
  exists g', sstep g o = Ok g' /\ ginv g' /\ f_n_neighbours g' = f_n_neighbours g.
Proof.
  intros I Hn. assert (T := fun p => track_new_pos_tie g p I).
  destruct o as [p s|p s|p s|p s]; cbn [sstep]; specialize (T p);
    destruct (g_SearchTracker_track_new_pos g p) as [g1|e] eqn:E1; cbn in T; try contradiction; destruct T as (A1 & I1 & N1); cbn [bind].
  - destruct (rres_total _ _ _ (evaluate_init_tie g1 s I1)) as (g' & E & I2 & N2); [|exists g'; repeat split; [exact E|apply I2|apply I2|congruence]].
    unfold evaluate_init, track_new_score, evaluate_init_body. cbn. eauto.
  - destruct (source_hc_evaluate_total g1 s I1 ltac:(lia)) as (g' & E & I2 & N2). exists g'. repeat split; [exact E|apply I2|apply I2|congruence].
  - destruct (rres_total _ _ _ (spiral_evaluate_tie g1 s I1)) as (g' & E & I2 & N2); [|exists g'; repeat split; [exact E|apply I2|apply I2|congruence]].
    unfold spiral_evaluate, track_new_score. cbn. eauto.
  - destruct (rres_total _ _ _ (base_evaluate_tracked_tie g1 s I1)) as (g' & E & I2 & N2); [|exists g'; repeat split; [exact E|apply I2|apply I2|congruence]].
    unfold base_evaluate_tracked, track_new_score. cbn. eauto.
Qed.

Theorem srun_total : forall ops g, ginv g -> 1 <= f_n_neighbours g -> exists g', srun g ops = Ok g'.
Proof.
  induction ops as [|o ops IH]; intros g I Hn; cbn [srun]; [eauto|].
  destruct (sstep_total g o I Hn) as (g1 & E & I1 & N1). rewrite E. cbn [bind]. apply IH; [exact I1|lia].
Qed.

Theorem source_tracker_never_raises n ops : 1 <= n -> exists g, srun (g_init n) ops = Ok g.
Proof. intros Hn. apply srun_total; [apply ginv_init|exact Hn]. Qed.
