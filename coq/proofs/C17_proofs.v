(* C17 — model-based proposals maximise the acquisition over sound training data. *)
Require Import Base Converter CoreOpt Smbo ListFacts MemFacts.

(* ---------- the training set equals the finite-scored evaluations, in order, after the warm start ---------- *)
(* one full driver step: the proposal is tracked, then its score *)
Definition smbo_step (s : smbo) (init : bool) (p : pos) (sc : score) : smbo :=
  let s1 := track_x s p in if init then smbo_evaluate_init s1 sc else smbo_evaluate s1 p sc.

Fixpoint smbo_run (s : smbo) (evs : list (bool * pos * score)) : smbo :=
  match evs with [] => s | (i, p, sc) :: tl => smbo_run (smbo_step s i p sc) tl end.

Definition finite_events (evs : list (bool * pos * score)) : list (pos * score) :=
  map (fun e => (snd (fst e), snd e)) (filter (fun e => is_finite (snd e)) evs).

Lemma removelast_snoc {A} (l : list A) x : removelast (l ++ [x]) = l.
Proof. apply removelast_last. Qed.

Lemma smbo_step_xy s i p sc : length (sm_X s) = length (sm_Y s) ->
  sm_X (smbo_step s i p sc) = (if is_finite sc then sm_X s ++ [p] else sm_X s) /\
  sm_Y (smbo_step s i p sc) = (if is_finite sc then sm_Y s ++ [sc] else sm_Y s).
Proof.
  intros _. unfold smbo_step, smbo_evaluate_init, smbo_evaluate, track_y, track_x.
  destruct i; cbn; [|destruct (sm_replacement s); cbn]; destruct (is_finite sc); cbn; rewrite ?removelast_snoc; split; reflexivity.
Qed.

Theorem xy_aligned : forall evs s, length (sm_X s) = length (sm_Y s) ->
  sm_X (smbo_run s evs) = sm_X s ++ map fst (finite_events evs) /\
  sm_Y (smbo_run s evs) = sm_Y s ++ map snd (finite_events evs).
Proof.
  induction evs as [|[[i p] sc] evs IH]; intros s Hl; cbn [smbo_run].
  - unfold finite_events. cbn. rewrite !app_nil_r. split; reflexivity.
  - destruct (smbo_step_xy s i p sc Hl) as [Ex Ey].
    assert (Hl' : length (sm_X (smbo_step s i p sc)) = length (sm_Y (smbo_step s i p sc))).
    { rewrite Ex, Ey. destruct (is_finite sc); [rewrite !app_length; cbn; lia|assumption]. }
    destruct (IH _ Hl') as [A B]. rewrite A, B, Ex, Ey. unfold finite_events. cbn [filter snd].
    destruct (is_finite sc); cbn [map fst snd]; rewrite <- ?app_assoc; split; reflexivity.
Qed.

(* ---------- the proposal is a maximiser of the acquisition over the candidate list ---------- *)
Theorem proposal_is_argmax comb acq i p : proposal_ok comb acq i p = true ->
  nth_error comb i = Some p /\ exists a, nth_error acq i = Some a /\ forall b, In b acq -> xr_gt b a = false.
Proof.
  unfold proposal_ok. destruct (nth_error comb i) as [q|] eqn:Eq; [|discriminate].
  destruct (nth_error acq i) as [a|] eqn:Ea; [|discriminate]. intros H.
  apply andb_prop in H. destruct H as [H Hall]. apply andb_prop in H. destruct H as [Hq _].
  apply pos_eqb_eq in Hq. subst q. split; [reflexivity|]. exists a. split; [reflexivity|].
  rewrite forallb_forall in Hall. intros b Hb. specialize (Hall b Hb). apply negb_true_iff in Hall. exact Hall.
Qed.

(* ---------- without replacement no iteration-phase position is a candidate any more ---------- *)
Lemma remove_position_not_in comb p : ~ In p (remove_position comb p).
Proof. unfold remove_position. intros H. apply filter_In in H. destruct H as [_ H]. rewrite pos_eqb_refl in H. discriminate. Qed.

Lemma remove_position_subset comb p q : In q (remove_position comb p) -> In q comb.
Proof. unfold remove_position. intros H. apply filter_In in H. tauto. Qed.

Lemma track_y_comb s sc : sm_comb (track_y s sc) = sm_comb s /\ sm_replacement (track_y s sc) = sm_replacement s.
Proof. unfold track_y. destruct (is_finite sc); split; reflexivity. Qed.

Theorem no_repeat_without_replacement : forall evs s,
  sm_replacement s = false ->
  (forall e, In e evs -> fst (fst e) = false) ->                       (* iteration steps *)
  let s' := smbo_run s evs in
  sm_replacement s' = false /\
  (forall q, In q (sm_comb s') -> In q (sm_comb s)) /\
  (forall e, In e evs -> ~ In (snd (fst e)) (sm_comb s')).
Proof.
  induction evs as [|[[i p] sc] evs IH]; intros s Hr Hit; cbn [smbo_run].
  - split; [assumption|]. split; [auto|intros e []].
  - assert (Hi : i = false) by (apply (Hit (i, p, sc)); left; reflexivity). subst i.
    set (s1 := smbo_step s false p sc).
    assert (R1 : sm_replacement s1 = false /\ sm_comb s1 = remove_position (sm_comb s) p).
    { unfold s1, smbo_step, smbo_evaluate, track_x. cbn [sm_replacement sm_X sm_Y sm_comb]. rewrite Hr.
      match goal with |- context [track_y ?t sc] => destruct (track_y_comb t sc) as [A B]; rewrite A, B end. split; reflexivity. }
    destruct R1 as [R1 C1].
    destruct (IH s1 R1 ltac:(intros e He; apply Hit; right; assumption)) as (A & B & C).
    split; [exact A|]. split.
    + intros q Hq. apply B in Hq. rewrite C1 in Hq. eapply remove_position_subset; eauto.
    + intros e [<-|He]; [|apply C; assumption]. cbn. intros Hq. apply B in Hq. rewrite C1 in Hq. eapply remove_position_not_in; eauto.
Qed.

(* ---------- TPE: the best / worst split is a partition of the training set ---------- *)
From Coq Require Import Permutation.

Lemma nat_mem_In x l : nat_mem x l = true <-> In x l.
Proof.
  induction l as [|y l IH]; cbn; [split; [discriminate|contradiction]|].
  rewrite orb_true_iff, IH, Nat.eqb_eq. split; intros [H|H]; auto.
Qed.
Lemma nodup_b_NoDup l : nodup_b l = true -> NoDup l.
Proof.
  induction l as [|x l IH]; cbn; [constructor|]. intros H. apply andb_prop in H. destruct H as [A B].
  constructor; [|apply IH; exact B]. intros Hin. apply nat_mem_In in Hin. rewrite Hin in A. discriminate.
Qed.

Lemma perm_of_range perm n : is_perm_of_range perm n = true -> Permutation perm (seq 0 n).
Proof.
  unfold is_perm_of_range. intros H. apply andb_prop in H. destruct H as [H C]. apply andb_prop in H. destruct H as [A B].
  apply Nat.eqb_eq in A. apply nodup_b_NoDup in B.
  apply NoDup_Permutation_bis; [exact B|rewrite seq_length; lia|].
  intros x Hx. apply in_seq. rewrite forallb_forall in C. specialize (C x Hx). apply Nat.ltb_lt in C. lia.
Qed.

Lemma seq_nth_map {A} (xs : list A) d : map (fun i => nth i xs d) (seq 0 (length xs)) = xs.
Proof.
  induction xs as [|x xs IH]; cbn; [reflexivity|]. f_equal. rewrite <- seq_shift, map_map. exact IH.
Qed.

Lemma firstn_last_n {A} (l : list A) k : (k <= length l)%nat -> firstn (length l - k) l ++ last_n k l = l.
Proof. intros H. unfold last_n. apply firstn_skipn. Qed.

(* every training point is in exactly one of the two groups: the groups, read through the index lists, are a permutation of X *)
Theorem tpe_split_partition {A} (xs : list A) (d : A) perm n_best :
  is_perm_of_range perm (length xs) = true -> (n_best <= length xs)%nat ->
  let '(ib, iw) := tpe_split perm n_best in
  Permutation (map (fun i => nth i xs d) iw ++ map (fun i => nth i xs d) ib) xs /\ length ib = n_best.
Proof.
  intros HP Hn. unfold tpe_split.
  assert (HL : length perm = length xs).
  { unfold is_perm_of_range in HP. apply andb_prop in HP. destruct HP as [HP _]. apply andb_prop in HP. destruct HP as [HP _].
    apply Nat.eqb_eq in HP. exact HP. }
  split.
  - rewrite <- map_app, firstn_last_n by lia.
    transitivity (map (fun i => nth i xs d) (seq 0 (length xs))).
    + apply Permutation_map. apply perm_of_range. exact HP.
    + rewrite seq_nth_map. reflexivity.
  - unfold last_n. rewrite skipn_length. lia.
Qed.
