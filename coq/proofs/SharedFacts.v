(* SharedFacts.v — soundness of the shared memory dictionary under EVERY interleaving. *)
From Coq Require Import ZArith List Bool Lia.
Import ListNotations.
Require Import Shared.

Section SharedFacts.
  Variable key : Type.
  Variable key_eqb : key -> key -> bool.
  Hypothesis key_eqb_spec : forall a b, reflect (a = b) (key_eqb a b).
  Variable val : Type.
  Variable f : key -> val.

  Notation lookup := (lookup key key_eqb val).
  Notation step := (step key key_eqb val f).
  Notation exec := (exec key key_eqb val f).
  Notation proc := (proc key val).
  Notation map_t := (map_t key val).

  Definition consistent (m : map_t) := forall k v, lookup m k = Some v -> v = f k.

  (* per-process invariant: everything it reported is objective(key) and is stored in the map;
     a process about to `get` a key finds it (nobody deletes) *)
  Definition proc_ok (m : map_t) (p : proc) :=
    Forall (fun kv => snd kv = f (fst kv) /\ lookup m (fst kv) <> None) (outs _ _ p) /\
    (at_ _ _ p = AtGet -> exists k rest v, todo _ _ p = k :: rest /\ lookup m k = Some v).

  (* every key of the map was there initially or was evaluated (and reported) by some process *)
  Definition dom_ok (m0 m : map_t) (ps : list proc) :=
    forall k, lookup m k <> None -> lookup m0 k <> None \/ exists p, In p ps /\ In k (map fst (outs _ _ p)).

  Lemma consistent_cons m k : consistent m -> consistent ((k, f k) :: m).
  Proof. intros H k' v. simpl. destruct (key_eqb_spec k' k); [intros [= <-]; subst; reflexivity | apply H]. Qed.

  Lemma upd_Forall (P : proc -> Prop) ps i p : Forall P ps -> P p -> Forall P (upd _ _ ps i p).
  Proof. revert i; induction ps as [|q tl IH]; intros [|j] Hf Hp; simpl; auto; inversion Hf; subst; constructor; auto. Qed.

  Lemma lookup_grow m k k0 : lookup m k0 <> None -> lookup ((k, f k) :: m) k0 <> None.
  Proof. simpl. destruct (key_eqb k0 k); congruence. Qed.

  Lemma proc_ok_grow m k p : proc_ok m p -> proc_ok ((k, f k) :: m) p.
  Proof.
    intros [Ho Hg]. split.
    - eapply Forall_impl; [|exact Ho]. intros [k0 v0] [A B]. split; [assumption|]. apply lookup_grow. assumption.
    - intros Ha. destruct (Hg Ha) as (k0 & rest & v & Ht & Hl).
      simpl. destruct (key_eqb k0 k) eqn:E.
      + exists k0, rest, (f k). rewrite E. auto.
      + exists k0, rest, v. rewrite E. auto.
  Qed.

  Lemma in_upd (ps : list proc) i (p q : proc) : In q ps -> nth_error ps i <> Some q \/ True -> In q (upd _ _ ps i p) \/ nth_error ps i = Some q.
  Proof.
    revert i. induction ps as [|x tl IH]; intros i Hin _; [contradiction|].
    destruct i as [|j]; simpl.
    - destruct Hin as [->|Hin]; [right; reflexivity|left; right; assumption].
    - destruct Hin as [->|Hin]; [left; left; reflexivity|].
      destruct (IH j Hin (or_intror I)) as [H|H]; [left; right; assumption|right; assumption].
  Qed.

  Lemma upd_in_new (ps : list proc) i (p q : proc) : nth_error ps i = Some q -> In p (upd _ _ ps i p).
  Proof.
    revert i. induction ps as [|x tl IH]; intros [|j] H; simpl in *; try discriminate.
    - left. reflexivity.
    - right. eapply IH. eassumption.
  Qed.

  (* the invariant of the whole system *)
  Definition sys_ok (m0 m : map_t) (ps : list proc) :=
    consistent m /\ Forall (proc_ok m) ps /\ dom_ok m0 m ps.

  Theorem shared_mem_sound : forall sched m0 ps m,
    sys_ok m0 m ps ->
    exists ps' m', exec ps m sched = Some (ps', m') /\ sys_ok m0 m' ps'.
  Proof.
    induction sched as [|i tl IH]; intros m0 ps m (Hc & Hp & Hd); simpl.
    - exists ps, m. split; [reflexivity|]. repeat split; assumption.
    - destruct (nth_error ps i) as [p|] eqn:En; [|apply IH; repeat split; assumption].
      destruct (todo _ _ p) as [|k rest] eqn:Et; [apply IH; repeat split; assumption|].
      assert (Hpi : proc_ok m p).
      { rewrite Forall_forall in Hp. apply Hp. eapply nth_error_In; eauto. }
      destruct Hpi as [Ho Hg]. unfold Shared.step. rewrite Et.
      destruct (at_ _ _ p) eqn:Ea.
      + (* contains *)
        destruct (lookup m k) as [v|] eqn:El.
        * apply IH. split; [assumption|]. split.
          -- apply upd_Forall; [assumption|]. split; simpl; [assumption|]. intros _. exists k, rest, v. auto.
          -- intros k0 Hk0. destruct (Hd k0 Hk0) as [H|(q & Hq & Hin)]; [left; assumption|]. right.
             destruct (in_upd ps i (mkProc _ _ (k :: rest) AtGet (outs _ _ p)) q Hq (or_intror I)) as [H|H].
             ++ exists q. auto.
             ++ assert (q = p) by congruence. subst q. eexists. split; [eapply upd_in_new; eauto|]. simpl. assumption.
        * apply IH. split; [assumption|]. split.
          -- apply upd_Forall; [assumption|]. split; simpl; [assumption|discriminate].
          -- intros k0 Hk0. destruct (Hd k0 Hk0) as [H|(q & Hq & Hin)]; [left; assumption|]. right.
             destruct (in_upd ps i (mkProc _ _ (k :: rest) AtSet (outs _ _ p)) q Hq (or_intror I)) as [H|H].
             ++ exists q. auto.
             ++ assert (q = p) by congruence. subst q. eexists. split; [eapply upd_in_new; eauto|]. simpl. assumption.
      + (* get: never a KeyError *)
        destruct (Hg eq_refl) as (k0 & rest0 & v & Ht & Hl). rewrite Et in Ht.
        assert (k0 = k /\ rest0 = rest) as [-> ->] by (split; congruence). clear Ht.
        rewrite Hl. apply IH. split; [assumption|]. split.
        * apply upd_Forall; [assumption|]. split; simpl; [|discriminate].
          constructor; [simpl; split; [apply Hc; assumption|congruence] | assumption].
        * intros k0 Hk0. destruct (Hd k0 Hk0) as [H|(q & Hq & Hin)]; [left; assumption|]. right.
          destruct (in_upd ps i (mkProc _ _ rest AtContains ((k, v) :: outs _ _ p)) q Hq (or_intror I)) as [H|H].
          -- exists q. auto.
          -- assert (q = p) by congruence. subst q. eexists. split; [eapply upd_in_new; eauto|]. simpl. right. assumption.
      + (* set: the objective was evaluated *)
        apply IH. split; [apply consistent_cons; assumption|]. split.
        * apply upd_Forall.
          -- eapply Forall_impl; [|exact Hp]. intros q. apply proc_ok_grow.
          -- split; simpl; [|discriminate]. constructor.
             ++ simpl. split; [reflexivity|]. destruct (key_eqb_spec k k); [discriminate|congruence].
             ++ eapply Forall_impl; [|exact Ho]. intros [k0 v0] [A B]. split; [assumption|]. apply lookup_grow. assumption.
        * intros k0 Hk0. simpl in Hk0. destruct (key_eqb_spec k0 k) as [Heq|Hne]; [rewrite Heq in *|].
          -- right. eexists. split; [eapply upd_in_new; eauto|]. simpl. left. reflexivity.
          -- destruct (Hd k0 Hk0) as [H|(q & Hq & Hin)]; [left; assumption|]. right.
             destruct (in_upd ps i (mkProc _ _ rest AtContains ((k, f k) :: outs _ _ p)) q Hq (or_intror I)) as [H|H].
             ++ exists q. auto.
             ++ assert (q = p) by congruence. subst q. eexists. split; [eapply upd_in_new; eauto|]. simpl. right. assumption.
  Qed.
End SharedFacts.
