(* InitTie.v — the Initializer GENERATED from /repo's init_positions.py (generated/InitGen.v) against theories/Init.v:
   _init_warm_start is Init.init_warm_start; _init_random_search is n rounds of the model's move_random; set_pos is Init.assemble of the
   parts; __init__ computes n_inits as the sum of the planned counts; C10's theorem (every feasible warm-start position is in the list
   of initial positions, before index n_inits) restated for the generated code.  _init_grid_search / _init_vertices are Section
   variables (pinned by digest); what is assumed about them: they leave initialize / n_inits / init_positions_l alone and return at
   most the requested number of positions. *)
Require Import Base PyPrims PyPrimsQ Converter CoreOpt Init ListFacts ConverterFacts CoreFacts C20_proofs C10_proofs InitGen.
From RecordUpdate Require Import RecordSet.
Import RecordSetNotations.
Open Scope Z_scope.

Section InitTie.
  Variable sp : space.
  Variable cons : values -> bool.
  Variable names : list Z.
  Variable init_grid_search : g_init -> Z -> res (g_init * list pos).
  Variable init_vertices : g_init -> Z -> res (g_init * list pos).

  Definition same_cfg (s s' : g_init) : Prop :=
    in_initialize s' = in_initialize s /\ in_n_inits s' = in_n_inits s /\ in_init_positions_l s' = in_init_positions_l s.
  Lemma same_cfg_refl s : same_cfg s s. Proof. repeat split. Qed.
  Lemma same_cfg_trans a b c : same_cfg a b -> same_cfg b c -> same_cfg a c.
  Proof. intros (A1 & A2 & A3) (B1 & B2 & B3). repeat split; congruence. Qed.

  (* ---------- generic loop lemmas ---------- *)
  Lemma for_map_gen {S A B} (f : A -> res B) (body : list B * S -> A -> res (list B * S)) :
    (forall acc s x, body (acc, s) x = match f x with Ok y => Ok (acc ++ [y], s) | Err e => Err e end) ->
    forall l acc s, py_for body l (acc, s) = match map_res f l with Ok ys => Ok (acc ++ ys, s) | Err e => Err e end.
  Proof.
    intros H. induction l as [|a l IH]; intros acc s; cbn [py_for map_res].
    - rewrite app_nil_r. reflexivity.
    - rewrite H. destruct (f a) as [y|e]; cbn [bind]; [|reflexivity]. rewrite IH.
      destruct (map_res f l) as [ys|e]; cbn [bind]; [|reflexivity]. rewrite <- app_assoc. reflexivity.
  Qed.

  Lemma for_filter_gen (body : list pos * g_init -> pos -> res (list pos * g_init)) :
    (forall acc s x, body (acc, s) x = match not_in_constraint sp cons x with
                                       | Ok b => Ok (if b then acc ++ [x] else acc, s <| in_ncalls := in_ncalls s + 1 |>)
                                       | Err e => Err e end) ->
    forall l acc s, match py_for body l (acc, s) with
                    | Ok (r, s') => exists fl, filter_res (not_in_constraint sp cons) l = Ok fl /\ r = acc ++ fl /\ same_cfg s s' /\ in_tape s' = in_tape s
                    | Err e => filter_res (not_in_constraint sp cons) l = Err e
                    end.
  Proof.
    intros H. induction l as [|a l IH]; intros acc s; cbn [py_for filter_res].
    - exists []. rewrite app_nil_r. repeat split.
    - rewrite H. destruct (not_in_constraint sp cons a) as [b|e]; cbn [bind]; [|reflexivity].
      specialize (IH (if b then acc ++ [a] else acc) (s <| in_ncalls := in_ncalls s + 1 |>)).
      destruct (py_for body l _) as [[r s']|e].
      + destruct IH as (fl & E & -> & Hc & Ht). rewrite E. cbn [bind]. exists (if b then a :: fl else fl).
        split; [reflexivity|]. split; [destruct b; rewrite <- ?app_assoc; reflexivity|].
        destruct s; cbn in *. split; [exact Hc|exact Ht].
      + rewrite IH. reflexivity.
  Qed.

  (* ---------- _init_warm_start ---------- *)
  Theorem init_warm_start_tie self ws :
    match g_Initializer_init_warm_start sp cons names self ws with
    | Ok (s', l) => init_warm_start sp cons names ws = Ok l /\ same_cfg self s' /\ in_tape s' = in_tape self
    | Err e => init_warm_start sp cons names ws = Err e
    end.
  Proof.
    unfold g_Initializer_init_warm_start, init_warm_start. cbv zeta.
    rewrite (for_map_gen (warm_start_position sp names)).
    2:{ intros acc s x. unfold warm_start_position. destruct (para2value names x) as [v|e]; cbn [bind]; [|reflexivity].
        destruct (value2position sp v) as [p|e]; reflexivity. }
    destruct (map_res (warm_start_position sp names) ws) as [ps|e]; cbn [bind app]; [|reflexivity].
    match goal with |- context [py_for ?b ps ([], self)] => pose proof (for_filter_gen b) as F end.
    match type of F with ?P -> _ => assert (HP : P) end.
    { intros acc s x. unfold ig_not_in_constraint. destruct (not_in_constraint sp cons x) as [[|]|e]; reflexivity. }
    specialize (F HP ps [] self). clear HP.
    destruct (py_for _ ps ([], self)) as [[r s']|e]; cbn [bind].
    - destruct F as (fl & E & -> & Hc & Ht). rewrite E. cbn [app]. repeat split; try apply Hc. exact Ht.
    - exact F.
  Qed.

  (* ---------- _init_random_search ---------- *)
  Definition tape_cfg (s s' : g_init) : Prop := same_cfg s s' /\ is_suffix (in_tape s') (in_tape s).

  Lemma while_move_random (body : list pos * g_init -> res ((list pos * g_init) + (list pos * g_init))) :
    (forall acc s, body (acc, s) =
       match draw_position (dim_sizes sp) (in_tape s) with
       | Ok (p, t') => match not_in_constraint sp cons p with
                       | Ok true => Ok (inr (acc ++ [p], s <| in_tape := t' |> <| in_ncalls := in_ncalls s + 1 |>))
                       | Ok false => Ok (inl (acc, s <| in_tape := t' |> <| in_ncalls := in_ncalls s + 1 |>))
                       | Err e => Err e end
       | Err e => Err e end) ->
    forall fuel acc s, py_while_ret fuel body (acc, s) =
      match move_random sp cons fuel (in_tape s) (in_ncalls s) with
      | Ok (p, t', c') => Ok (acc ++ [p], s <| in_tape := t' |> <| in_ncalls := c' |>)
      | Err e => Err e
      end.
  Proof.
    intros H. induction fuel as [|f IH]; intros acc s; [reflexivity|]. cbn [py_while_ret move_random]. rewrite H.
    destruct s as [iz ni ipl t c]. cbn [InitGen.in_tape InitGen.in_ncalls].
    destruct (draw_position (dim_sizes sp) t) as [[p t']|e]; cbn [bind fst snd]; [|reflexivity]. unfold feasible.
    destruct (not_in_constraint sp cons p) as [[|]|e]; cbn [bind]; try reflexivity.
    rewrite IH. cbn. destruct (move_random sp cons f t' (c + 1)) as [[[q t2] c2]|e]; reflexivity.
  Qed.

  Lemma random_rounds (body : list pos * g_init -> Z -> res (list pos * g_init)) fuel :
    (forall acc s x, body (acc, s) x = match move_random sp cons fuel (in_tape s) (in_ncalls s) with
                                       | Ok (p, t', c') => Ok (acc ++ [p], s <| in_tape := t' |> <| in_ncalls := c' |>)
                                       | Err e => Err e end) ->
    forall (l : list Z) acc s r s', py_for body l (acc, s) = Ok (r, s') ->
      exists new, r = acc ++ new /\ length new = length l /\ Forall (emit_ok sp cons) new /\ tape_cfg s s'.
  Proof.
    intros H. induction l as [|a l IH]; intros acc s r s' E; cbn [py_for] in E.
    - inversion E; subst. exists []. rewrite app_nil_r. repeat split; try constructor. apply is_suffix_refl.
    - rewrite H in E. destruct (move_random sp cons fuel (in_tape s) (in_ncalls s)) as [[[p t'] c']|e] eqn:M; cbn [bind] in E; [|discriminate].
      destruct (move_random_ok sp cons fuel _ _ _ _ _ M) as (Hp & Hs & _).
      destruct (IH _ _ _ _ E) as (new & -> & Hl & Hf & (Hc & Ht)).
      exists (p :: new). split; [rewrite <- app_assoc; reflexivity|]. split; [cbn; lia|]. split; [constructor; assumption|].
      destruct s; cbn in *. split; [exact Hc|]. eapply is_suffix_trans; [exact Ht|exact Hs].
  Qed.

  Theorem init_random_search_spec fuel self n s' l :
    g_Initializer_init_random_search sp cons fuel self n = Ok (s', l) ->
    length l = Z.to_nat n /\ Forall (emit_ok sp cons) l /\ tape_cfg self s'.
  Proof.
    unfold g_Initializer_init_random_search. cbv zeta. destruct (Z.eqb_spec n 0) as [->|Hn]; intros E.
    - inversion E; subst. repeat split; try constructor. apply is_suffix_refl.
    - match type of E with context [py_for ?b (py_range n) ([], self)] => pose proof (random_rounds b fuel) as R end.
      match type of R with ?P -> _ => assert (HP : P) end.
      { intros acc s x. match goal with |- context [py_while_ret fuel ?wb (acc, s)] => rewrite (while_move_random wb) end.
        - destruct (move_random sp cons fuel (in_tape s) (in_ncalls s)) as [[[p t'] c']|e]; reflexivity.
        - intros acc0 s0. unfold ig_draw_position. destruct (draw_position (dim_sizes sp) (in_tape s0)) as [[p t']|e]; cbn [bind fst snd]; [|reflexivity].
          unfold ig_not_in_constraint. cbn. destruct (not_in_constraint sp cons p) as [[|]|e]; reflexivity. }
      specialize (R HP (py_range n) [] self). clear HP.
      destruct (py_for _ (py_range n) ([], self)) as [[r s1]|e]; cbn [bind] in E; [|discriminate]. inversion E; subst.
      destruct (R _ _ eq_refl) as (new & -> & Hl & Hf & Hc). cbn [app].
      split; [rewrite Hl; unfold py_range; rewrite map_length, seq_length; reflexivity|]. split; assumption.
  Qed.

  (* no livelock in the generated random initialisation: with rejected candidates first and a feasible one after them on the tape, one
     requested position is that one, after exactly one constraint evaluation per candidate *)
  Theorem init_random_search_first_feasible fuel (self : g_init) (rejected : list pos) (p : pos) (rest : tape) :
    Forall (fun q => in_box sp q /\ feasible sp cons q = Ok false) rejected -> in_box sp p -> feasible sp cons p = Ok true ->
    (length rejected < fuel)%nat -> in_tape self = flat_map (map DZ) rejected ++ map DZ p ++ rest ->
    g_Initializer_init_random_search sp cons fuel self 1 =
    Ok (self <| in_tape := rest |> <| in_ncalls := in_ncalls self + Z.of_nat (length rejected) + 1 |>, [p]).
  Proof.
    intros Hr Hp Hf Hfuel Ht. unfold g_Initializer_init_random_search. cbv zeta. change (1 =? 0) with false. cbv iota.
    change (py_range 1) with [0]. cbn [py_for].
    match goal with |- context [py_while_ret fuel ?wb ([], self)] => rewrite (while_move_random wb) end.
    - rewrite Ht, (move_random_first_feasible sp cons rejected p rest (in_ncalls self) Hr Hp Hf fuel Hfuel). cbn [bind app]. reflexivity.
    - intros acc0 s0. unfold ig_draw_position. destruct (draw_position (dim_sizes sp) (in_tape s0)) as [[q t']|e]; cbn [bind fst snd]; [|reflexivity].
      unfold ig_not_in_constraint. cbn. destruct (not_in_constraint sp cons q) as [[|]|e]; reflexivity.
  Qed.

  (* ---------- _fill_rest_random ---------- *)
  Theorem fill_rest_random_spec fuel self ps s' l :
    g_Initializer_fill_rest_random sp cons fuel self ps = Ok (s', l) ->
    exists fill, l = ps ++ fill /\ length fill = Z.to_nat (in_n_inits self - zlen ps) /\ Forall (emit_ok sp cons) fill /\ tape_cfg self s'.
  Proof.
    unfold g_Initializer_fill_rest_random. cbv zeta. destruct (Z.ltb_spec 0 (in_n_inits self - zlen ps)) as [Hd|Hd]; intros E.
    - destruct (g_Initializer_init_random_search sp cons fuel self _) as [[s1 rnd]|e] eqn:R; cbn [bind] in E; [|discriminate].
      inversion E; subst. destruct (init_random_search_spec _ _ _ _ _ R) as (A & B & C). exists rnd. repeat split; try assumption; apply C.
    - inversion E; subst. exists []. rewrite app_nil_r. split; [reflexivity|]. split; [cbn; lia|]. split; [constructor|].
      split; [apply same_cfg_refl|apply is_suffix_refl].
  Qed.

  (* ---------- set_pos ---------- *)
  Hypothesis grid_cfg : forall s n s' l, init_grid_search s n = Ok (s', l) -> same_cfg s s' /\ (length l <= Z.to_nat n)%nat.
  Hypothesis vert_cfg : forall s n s' l, init_vertices s n = Ok (s', l) -> same_cfg s s' /\ (length l <= Z.to_nat n)%nat.

  Definition cnt (o : option Z) : nat := match o with Some n => Z.to_nat n | None => 0%nat end.

  (* one `if key in self.initialize: positions = F(...); init_positions_ll.append(positions)` block *)
  Definition blk {T} (o : option T) (F : g_init -> T -> res (g_init * list pos)) (ll : list (list pos)) (s : g_init) : res (list (list pos) * g_init) :=
    if negb (py_is_none o) then (do n <- py_dict_get o; do (s, l) <- F s n; Ok (ll ++ [l], s)) else Ok (ll, s).
  Lemma blk_spec {T} (o : option T) F ll s ll' s' : blk o F ll s = Ok (ll', s') ->
    (o = None /\ ll' = ll /\ s' = s) \/ (exists n l, o = Some n /\ F s n = Ok (s', l) /\ ll' = ll ++ [l]).
  Proof.
    unfold blk. destruct o as [n|]; cbn [py_is_none negb py_dict_get bind]; intros E.
    - right. destruct (F s n) as [[s1 l]|e] eqn:EF; cbn [bind] in E; [|discriminate]. inversion E; subst. exists n, l. repeat split; assumption.
    - left. inversion E; subst. repeat split.
  Qed.

  Lemma blk_sum {T} (o : option T) F ll s ll' s' (c : T -> nat) :
    (forall s n s' l, F s n = Ok (s', l) -> same_cfg s s' /\ (length l <= c n)%nat) -> blk o F ll s = Ok (ll', s') ->
    exists part, concat ll' = concat ll ++ part /\ same_cfg s s' /\
                 (length part <= match o with Some n => c n | None => 0%nat end)%nat /\
                 match o with Some n => F s n = Ok (s', part) | None => part = [] end.
  Proof.
    intros HF B. destruct (blk_spec _ _ _ _ _ _ B) as [(-> & -> & ->) | (n & l & -> & EF & ->)].
    - exists []. rewrite app_nil_r. repeat split; cbn; lia.
    - exists l. rewrite concat_app. cbn [concat]. rewrite app_nil_r. destruct (HF _ _ _ _ EF) as [A B']. repeat split; try apply A; assumption.
  Qed.

  Theorem set_pos_spec fuel self s' :
    g_Initializer_set_pos sp cons names init_grid_search init_vertices fuel self = Ok s' ->
    exists rnd grid vert warm fill,
      in_init_positions_l s' = assemble rnd grid vert warm fill /\
      in_initialize s' = in_initialize self /\ in_n_inits s' = in_n_inits self /\
      (length rnd <= cnt (iz_random (in_initialize self)))%nat /\ (length grid <= cnt (iz_grid (in_initialize self)))%nat /\
      (length vert <= cnt (iz_vertices (in_initialize self)))%nat /\
      (forall ws, iz_warm_start (in_initialize self) = Some ws -> init_warm_start sp cons names ws = Ok warm) /\
      (iz_warm_start (in_initialize self) = None -> warm = []) /\
      length fill = Z.to_nat (in_n_inits self - zlen (rnd ++ grid ++ vert ++ warm)) /\
      Forall (emit_ok sp cons) rnd /\ Forall (emit_ok sp cons) fill.
  Proof.
    unfold g_Initializer_set_pos. cbv zeta. intros E.
    match type of E with bind ?m _ = _ => destruct m as [[ll1 s1]|e] eqn:B1; [|discriminate] end. cbn [bind] in E.
    change (blk (iz_random (in_initialize self)) (g_Initializer_init_random_search sp cons fuel) [] self = Ok (ll1, s1)) in B1.
    match type of E with bind ?m _ = _ => destruct m as [[ll2 s2]|e] eqn:B2; [|discriminate] end. cbn [bind] in E.
    change (blk (iz_grid (in_initialize s1)) init_grid_search ll1 s1 = Ok (ll2, s2)) in B2.
    match type of E with bind ?m _ = _ => destruct m as [[ll3 s3]|e] eqn:B3; [|discriminate] end. cbn [bind] in E.
    change (blk (iz_vertices (in_initialize s2)) init_vertices ll2 s2 = Ok (ll3, s3)) in B3.
    match type of E with bind ?m _ = _ => destruct m as [[ll4 s4]|e] eqn:B4; [|discriminate] end. cbn [bind] in E.
    change (blk (iz_warm_start (in_initialize s3)) (g_Initializer_init_warm_start sp cons names) ll3 s3 = Ok (ll4, s4)) in B4.
    assert (HR : forall s0 n s0' l, g_Initializer_init_random_search sp cons fuel s0 n = Ok (s0', l) -> same_cfg s0 s0' /\ (length l <= Z.to_nat n)%nat).
    { intros s0 n s0' l H. destruct (init_random_search_spec _ _ _ _ _ H) as (A & _ & (C & _)). split; [exact C|lia]. }
    assert (HW : forall s0 ws s0' l, g_Initializer_init_warm_start sp cons names s0 ws = Ok (s0', l) -> same_cfg s0 s0' /\ (length l <= length ws)%nat).
    { intros s0 ws s0' l H. pose proof (init_warm_start_tie s0 ws) as T. rewrite H in T. destruct T as (T1 & T2 & _). split; [exact T2|].
      unfold init_warm_start in T1. destruct (map_res (warm_start_position sp names) ws) as [ps|] eqn:M; cbn [bind] in T1; [|discriminate].
      pose proof (filter_res_length _ _ _ T1). rewrite (map_res_length _ _ _ M) in *. lia. }
    destruct (blk_sum _ _ _ _ _ _ (fun n => Z.to_nat n) HR B1) as (rnd & C1 & S1 & L1 & W1).
    destruct (blk_sum _ _ _ _ _ _ (fun n => Z.to_nat n) grid_cfg B2) as (grid & C2 & S2 & L2 & _).
    destruct (blk_sum _ _ _ _ _ _ (fun n => Z.to_nat n) vert_cfg B3) as (vert & C3 & S3 & L3 & _).
    destruct (blk_sum _ _ _ _ _ _ (fun ws : list para => length ws) HW B4) as (warm & C4 & S4 & _ & W4).
    pose proof (same_cfg_trans _ _ _ S1 S2) as S12. pose proof (same_cfg_trans _ _ _ S12 S3) as S13. pose proof (same_cfg_trans _ _ _ S13 S4) as S14.
    destruct S1 as (I1 & _ & _). destruct S12 as (I2 & _ & _). destruct S13 as (I3 & _ & _). destruct S14 as (I4 & N4 & _).
    rewrite I1 in L2. rewrite I2 in L3. rewrite I3 in W4.
    cbn [concat app] in C1. rewrite C1 in C2. rewrite C2 in C3. rewrite C3 in C4. rewrite <- !app_assoc in C4.
    match type of E with bind ?m _ = _ => destruct m as [[s5 l5]|e] eqn:FR; [|discriminate] end. cbn [bind] in E. inversion E; subst s'. clear E.
    destruct (fill_rest_random_spec _ _ _ _ _ FR) as (fill & -> & LF & FF & ((J1 & J2 & _) & _)).
    destruct s4 as [iz4 ni4 ipl4 t4 c4]. cbn in *. subst iz4 ni4.
    exists rnd, grid, vert, warm, fill. unfold assemble. destruct s5 as [iz5 ni5 ipl5 t5 c5]. cbn in *. subst iz5 ni5.
    rewrite C4. rewrite <- !app_assoc.
    split; [reflexivity|]. split; [reflexivity|]. split; [reflexivity|].
    split; [exact L1|]. split; [exact L2|]. split; [exact L3|].
    split; [intros ws Hws; rewrite Hws in W4; pose proof (init_warm_start_tie s3 ws) as T; rewrite W4 in T; apply T|].
    split; [intros Hn; rewrite Hn in W4; exact W4|].
    split; [rewrite C4 in LF; exact LF|]. split; [|exact FF].
    destruct (iz_random (in_initialize self)) as [nr|]; [|rewrite W1; constructor].
    destruct (init_random_search_spec _ _ _ _ _ W1) as (_ & F1 & _). exact F1.
  Qed.

  (* ---------- __init__: n_inits and C10 for the generated Initializer ---------- *)
  Definition optz (o : option Z) : Z := match o with Some n => n | None => 0 end.
  Definition optlen (o : option (list para)) : Z := match o with Some l => zlen l | None => 0 end.

  Theorem init_spec fuel self0 iz s' :
    g_Initializer_init sp cons names init_grid_search init_vertices fuel self0 iz = Ok s' ->
    in_initialize s' = iz /\
    in_n_inits s' = optz (iz_random iz) + optz (iz_grid iz) + optz (iz_vertices iz) + optlen (iz_warm_start iz) /\
    exists rnd grid vert warm fill,
      in_init_positions_l s' = assemble rnd grid vert warm fill /\
      (length rnd <= cnt (iz_random iz))%nat /\ (length grid <= cnt (iz_grid iz))%nat /\ (length vert <= cnt (iz_vertices iz))%nat /\
      (forall ws, iz_warm_start iz = Some ws -> init_warm_start sp cons names ws = Ok warm) /\
      length fill = Z.to_nat (in_n_inits s' - zlen (rnd ++ grid ++ vert ++ warm)) /\
      Forall (emit_ok sp cons) rnd /\ Forall (emit_ok sp cons) fill.
  Proof.
    unfold g_Initializer_init. cbv zeta. intros E.
    destruct iz as [o1 o2 o3 o4]. cbn [iz_random iz_grid iz_vertices iz_warm_start] in *.
    destruct o1 as [n1|], o2 as [n2|], o3 as [n3|], o4 as [w4|]; cbn [py_is_none negb py_dict_get bind] in E;
      (match type of E with bind ?m _ = _ => destruct m as [s1|e] eqn:SP; [|discriminate] end; cbn [bind] in E; inversion E; subst s1; clear E;
       destruct (set_pos_spec _ _ _ SP) as (rnd & grid & vert & warm & fill & P & I & N & L1 & L2 & L3 & W & _ & LF & F1 & F2);
       destruct self0 as [iz0 ni0 ipl0 t0 c0]; cbn in I, N, L1, L2, L3, W, LF;
       split; [exact I|]; split; [rewrite N; cbn; lia|];
       exists rnd, grid, vert, warm, fill; rewrite N; repeat split; assumption).
  Qed.

  (* C10 for the generated code: every warm-start dictionary whose position is feasible is in the list of initial positions, before
     index n_inits (counts non-negative) *)
  Theorem source_warm_start_in_init_list fuel self0 iz s' ws w p :
    g_Initializer_init sp cons names init_grid_search init_vertices fuel self0 iz = Ok s' ->
    iz_warm_start iz = Some ws -> In w ws -> warm_start_position sp names w = Ok p -> not_in_constraint sp cons p = Ok true ->
    0 <= optz (iz_random iz) -> 0 <= optz (iz_grid iz) -> 0 <= optz (iz_vertices iz) ->
    exists i, nth_error (in_init_positions_l s') i = Some p /\ Z.of_nat i < in_n_inits s'.
  Proof.
    intros E Hws Hin Hp Hf H1 H2 H3.
    destruct (init_spec _ _ _ _ E) as (_ & N & rnd & grid & vert & warm & fill & P & L1 & L2 & L3 & W & _).
    destruct (warm_start_in_init_list sp cons names ws warm w p rnd grid vert fill _ _ _ (W _ Hws) Hin Hp Hf L1 L2 L3) as (i & A & B).
    exists i. rewrite P. split; [exact A|]. rewrite N, Hws. cbn [optlen]. unfold zlen.
    destruct (iz_random iz), (iz_grid iz), (iz_vertices iz); cbn [cnt optz] in *; lia.
  Qed.
  (* C02 for the generated Initializer: every initial position is feasible -- the random ones and the random padding by rejection sampling,
     the warm starts by the constraint filter -- provided the two abstract sections (grid, vertices) return feasible positions only *)
  Lemma filter_res_all {A} (g : A -> res bool) l out : filter_res g l = Ok out -> Forall (fun x => g x = Ok true) out.
  Proof.
    revert out. induction l as [|y l IH]; intros out H; cbn in H; [inversion H; constructor|].
    destruct (g y) as [b|] eqn:Ey; cbn in H; [|discriminate]. destruct (filter_res g l) as [r|] eqn:Er; cbn in H; [|discriminate].
    inversion H; subst. specialize (IH r eq_refl). destruct b; [constructor; assumption|assumption].
  Qed.

  Theorem source_init_positions_feasible fuel self0 iz s' :
    (forall s n s1 l, init_grid_search s n = Ok (s1, l) -> Forall (fun p => not_in_constraint sp cons p = Ok true) l) ->
    (forall s n s1 l, init_vertices s n = Ok (s1, l) -> Forall (fun p => not_in_constraint sp cons p = Ok true) l) ->
    g_Initializer_init sp cons names init_grid_search init_vertices fuel self0 iz = Ok s' ->
    Forall (fun p => not_in_constraint sp cons p = Ok true) (in_init_positions_l s').
  Proof.
    intros HG HV. unfold g_Initializer_init. cbv zeta. intros E.
    assert (SP : exists s0, g_Initializer_set_pos sp cons names init_grid_search init_vertices fuel s0 = Ok s').
    { destruct iz as [o1 o2 o3 o4]. cbn [iz_random iz_grid iz_vertices iz_warm_start] in E.
      destruct o1 as [n1|], o2 as [n2|], o3 as [n3|], o4 as [w4|]; cbn [py_is_none negb py_dict_get bind] in E;
        (match type of E with bind ?m _ = _ => destruct m as [s1|e] eqn:SPE; [|discriminate] end; cbn [bind] in E; inversion E; subst s1; eexists; exact SPE). }
    destruct SP as [s0 SP]. clear E. revert SP. unfold g_Initializer_set_pos. cbv zeta. intros E.
    match type of E with bind ?m _ = _ => destruct m as [[ll1 s1]|e] eqn:B1; [|discriminate] end. cbn [bind] in E.
    change (blk (iz_random (in_initialize s0)) (g_Initializer_init_random_search sp cons fuel) [] s0 = Ok (ll1, s1)) in B1.
    match type of E with bind ?m _ = _ => destruct m as [[ll2 s2]|e] eqn:B2; [|discriminate] end. cbn [bind] in E.
    change (blk (iz_grid (in_initialize s1)) init_grid_search ll1 s1 = Ok (ll2, s2)) in B2.
    match type of E with bind ?m _ = _ => destruct m as [[ll3 s3]|e] eqn:B3; [|discriminate] end. cbn [bind] in E.
    change (blk (iz_vertices (in_initialize s2)) init_vertices ll2 s2 = Ok (ll3, s3)) in B3.
    match type of E with bind ?m _ = _ => destruct m as [[ll4 s4]|e] eqn:B4; [|discriminate] end. cbn [bind] in E.
    change (blk (iz_warm_start (in_initialize s3)) (g_Initializer_init_warm_start sp cons names) ll3 s3 = Ok (ll4, s4)) in B4.
    set (OKP := fun p : pos => not_in_constraint sp cons p = Ok true).
    assert (step : forall {T} (o : option T) F ll s ll' s1',
               (forall s n s1 l, F s n = Ok (s1, l) -> Forall OKP l) -> blk o F ll s = Ok (ll', s1') -> Forall OKP (concat ll) -> Forall OKP (concat ll')).
    { intros T o F ll s ll' s1' HF B HL. destruct (blk_spec _ _ _ _ _ _ B) as [(_ & -> & _) | (n & l & _ & EF & ->)]; [exact HL|].
      rewrite concat_app. cbn [concat]. rewrite app_nil_r. apply Forall_app. split; [exact HL|exact (HF _ _ _ _ EF)]. }
    assert (HRf : forall s n s1' l, g_Initializer_init_random_search sp cons fuel s n = Ok (s1', l) -> Forall OKP l).
    { intros s n s1' l H. destruct (init_random_search_spec _ _ _ _ _ H) as (_ & FF & _). eapply Forall_impl; [|exact FF]. intros p [_ Hp]. exact Hp. }
    assert (HWf : forall s ws s1' l, g_Initializer_init_warm_start sp cons names s ws = Ok (s1', l) -> Forall OKP l).
    { intros s ws s1' l H. pose proof (init_warm_start_tie s ws) as T. rewrite H in T. destruct T as (T1 & _).
      unfold init_warm_start in T1. destruct (map_res (warm_start_position sp names) ws) as [ps|]; cbn [bind] in T1; [|discriminate].
      exact (filter_res_all _ _ _ T1). }
    assert (F1 : Forall OKP (concat ll1)) by (apply (step _ _ _ _ _ _ _ HRf B1); constructor).
    assert (F2 : Forall OKP (concat ll2)) by (apply (step _ _ _ _ _ _ _ HG B2 F1)).
    assert (F3 : Forall OKP (concat ll3)) by (apply (step _ _ _ _ _ _ _ HV B3 F2)).
    assert (F4 : Forall OKP (concat ll4)) by (apply (step _ _ _ _ _ _ _ HWf B4 F3)).
    match type of E with bind ?m _ = _ => destruct m as [[s5 l5]|e] eqn:FR; [|discriminate] end. cbn [bind] in E. inversion E; subst s'. clear E.
    destruct (fill_rest_random_spec _ _ _ _ _ FR) as (fill & -> & _ & FF & _).
    destruct s4; destruct s5; cbn in *. apply Forall_app. split; [exact F4|].
    eapply Forall_impl; [|exact FF]. intros p [_ Hp]. exact Hp.
  Qed.
End InitTie.
