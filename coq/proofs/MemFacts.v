(* MemFacts.v — the memory wrapper along a search() call, for a deterministic objective. *)
Require Import Base StopRun Converter Driver DriverFacts ConverterFacts ListFacts.
From RecordUpdate Require Import RecordSet.
Import RecordSetNotations.

(* ---------- python dict facts (keys = position tuples) ---------- *)
Lemma pos_eqb_eq a b : pos_eqb a b = true <-> a = b.
Proof.
  revert b. induction a as [|x a IH]; intros [|y b]; cbn; split; intros H; try discriminate; try reflexivity.
  - apply andb_prop in H. destruct H as [H1 H2]. apply Z.eqb_eq in H1. apply IH in H2. congruence.
  - inversion H; subst. rewrite Z.eqb_refl. cbn. apply IH. reflexivity.
Qed.
Lemma pos_eqb_refl a : pos_eqb a a = true. Proof. apply pos_eqb_eq. reflexivity. Qed.
Lemma pos_eqb_neq a b : a <> b -> pos_eqb a b = false.
Proof. intros H. destruct (pos_eqb a b) eqn:E; [apply pos_eqb_eq in E; contradiction|reflexivity]. Qed.

Section DictFacts.
  Context {V : Type}.
  Notation dget := (@dict_get pos V pos_eqb).
  Notation dset := (@dict_set pos V pos_eqb).

  Lemma dset_absent k v d : dget k d = None -> dset k v d = d ++ [(k, v)].
  Proof.
    induction d as [|[k' v'] d IH]; cbn; [reflexivity|]. destruct (pos_eqb k k'); [discriminate|].
    intros H. rewrite IH by assumption. reflexivity.
  Qed.
  Lemma dget_app k d1 d2 : dget k (d1 ++ d2) = match dget k d1 with Some v => Some v | None => dget k d2 end.
  Proof. induction d1 as [|[k' v'] d IH]; cbn; [reflexivity|]. destruct (pos_eqb k k'); [reflexivity|apply IH]. Qed.
  Lemma dget_in k v d : dget k d = Some v -> In (k, v) d.
  Proof.
    induction d as [|[k' v'] d IH]; cbn; [discriminate|]. destruct (pos_eqb k k') eqn:E.
    - intros [= ->]. apply pos_eqb_eq in E. subst. left. reflexivity.
    - intros H. right. apply IH. assumption.
  Qed.
  Lemma dget_zip_none k keys (vals : list V) : ~ In k keys -> dget k (zip keys vals) = None.
  Proof.
    revert vals. induction keys as [|k' keys IH]; intros vals Hn; cbn; [reflexivity|].
    destruct vals as [|v vals]; [reflexivity|]. cbn.
    rewrite pos_eqb_neq by (intros ->; apply Hn; left; reflexivity). apply IH. intros H. apply Hn. right. assumption.
  Qed.
End DictFacts.

Section Mem.
  Context {OP : optimizer}.
  Variable sp : space.
  Variable f0 : values -> result.           (* the deterministic objective *)
  Variable clk : nat -> Z.
  Notation f := (fun (_ : nat) (v : values) => f0 v).

  (* the memory of the current call, relative to the state s0 right after init_search *)
  Record minv (s0 : drv OP) (tr : list ev) (s : drv OP) (newcalls : list values) (keys : list pos) : Prop := {
    mi_fcalls : d_fcalls s = d_fcalls s0 ++ newcalls;
    mi_off    : c_memory (d_call s0) = false ->
                newcalls = map ev_val tr /\ (forall e, In e tr -> ev_res e = f0 (ev_val e)) /\ d_mem s = d_mem s0;
    mi_keys   : c_memory (d_call s0) = true -> Forall2 (fun v k => value2position sp v = Ok k) newcalls keys;
    mi_mem    : c_memory (d_call s0) = true -> d_mem s = d_mem s0 ++ zip keys (map f0 newcalls);
    mi_nodup  : c_memory (d_call s0) = true -> NoDup keys;
    mi_fresh  : c_memory (d_call s0) = true -> forall k, In k keys -> dict_get pos_eqb k (d_mem s0) = None;
    mi_hit    : c_memory (d_call s0) = true -> forall e, In e tr ->
                  exists k, value2position sp (ev_val e) = Ok k /\ dict_get pos_eqb k (d_mem s) = Some (ev_res e);
    mi_called : c_memory (d_call s0) = true -> forall v, In v newcalls -> exists e, In e tr /\ ev_val e = v
  }.

  Lemma zip_app {A B} (a1 a2 : list A) (b1 b2 : list B) : length a1 = length b1 ->
    zip (a1 ++ a2) (b1 ++ b2) = zip a1 b1 ++ zip a2 b2.
  Proof.
    revert b1. induction a1 as [|x a1 IH]; intros [|y b1] H; cbn in *; try discriminate; [reflexivity|].
    rewrite IH by lia. reflexivity.
  Qed.

  Lemma minv_step s0 tr s nc ks kind s1 p v r :
    minv s0 tr s nc ks -> d_call s = d_call s0 ->
    step_rel sp f clk kind s (zlen tr) s1 p v r ->
    exists nc' ks', minv s0 (tr ++ [(p, v, r)]) s1 nc' ks'.
  Proof.
    intros M Hcall R. destruct M. destruct (sr_look _ _ _ _ _ _ _ _ _ _ R) as (sa & sb & Hl & A1 & A2 & A3 & A4 & B1 & B2 & B3).
    destruct Hl as [(Hoff & Hr & Hsb) | (Hon & key & Hkey & [(Hget & Hsb) | (Hget & Hr & Hsb)])].
    - (* memory off *)
      rewrite A4, Hcall in Hoff. destruct (mi_off0 Hoff) as (N1 & N2 & N3).
      exists (nc ++ [v]), ks. constructor; try (intros C; rewrite C in Hoff; discriminate).
      + rewrite B1, Hsb. cbn. rewrite A1, mi_fcalls0, app_assoc. reflexivity.
      + intros _. split; [|split].
        * rewrite map_app, N1. reflexivity.
        * intros e Hin. apply in_app_or in Hin. destruct Hin as [Hin|[<-|[]]]; [auto|]. exact Hr.
        * rewrite B2, Hsb. cbn. rewrite A2. exact N3.
    - (* memory hit *)
      rewrite A4, Hcall in Hon. subst sb.
      exists nc, ks. constructor; [|intros C; rewrite C in Hon; discriminate|intros _ ..].
      + rewrite B1, A1. exact mi_fcalls0.
      + exact (mi_keys0 Hon).
      + rewrite B2, A2. exact (mi_mem0 Hon).
      + exact (mi_nodup0 Hon).
      + exact (mi_fresh0 Hon).
      + intros e Hin. rewrite B2, A2. apply in_app_or in Hin. destruct Hin as [Hin|[<-|[]]]; [exact (mi_hit0 Hon e Hin)|].
        exists key. split; [exact Hkey|]. rewrite <- A2. exact Hget.
      + intros v' Hin. destruct (mi_called0 Hon v' Hin) as (e & He & Hv). exists e. split; [apply in_or_app; left|]; assumption.
    - (* memory miss: the objective is called and the result stored *)
      rewrite A4, Hcall in Hon. rewrite A2 in Hget.
      assert (Hnew : ~ In key ks).
      { intros Hin. rewrite (mi_mem0 Hon), dget_app in Hget.
        destruct (dict_get pos_eqb key (d_mem s0)); [discriminate|].
        (* key among ks with a value -> get is Some *)
        pose proof (mi_keys0 Hon) as F2. clear -Hin Hget F2.
        revert nc F2 Hget. induction ks as [|k ks IH]; intros nc F2 Hget; [contradiction|].
        inversion F2 as [|v0 ? nc' ? _ F2']; subst. cbn in Hget.
        destruct (pos_eqb key k) eqn:E; [discriminate|].
        destruct Hin as [->|Hin]; [rewrite pos_eqb_refl in E; discriminate|]. eapply IH; eauto. }
      assert (Hm0 : dict_get pos_eqb key (d_mem s0) = None).
      { rewrite (mi_mem0 Hon), dget_app in Hget. destruct (dict_get pos_eqb key (d_mem s0)); [discriminate|reflexivity]. }
      exists (nc ++ [v]), (ks ++ [key]). constructor; [|intros C; rewrite C in Hon; discriminate|intros _ ..].
      + rewrite B1, Hsb. cbn. rewrite A1, mi_fcalls0, app_assoc. reflexivity.
      + apply Forall2_app; [exact (mi_keys0 Hon)|]. constructor; [exact Hkey|constructor].
      + rewrite B2, Hsb. cbn. rewrite A2. rewrite dset_absent by exact Hget.
        rewrite (mi_mem0 Hon), map_app, zip_app, <- app_assoc.
        * cbn. rewrite Hr. reflexivity.
        * rewrite map_length. symmetry. eapply Forall2_length. exact (mi_keys0 Hon).
      + apply NoDup_app_snoc; [exact (mi_nodup0 Hon)|exact Hnew].
      + intros k Hin. apply in_app_or in Hin. destruct Hin as [Hin|[<-|[]]]; [exact (mi_fresh0 Hon k Hin)|exact Hm0].
      + intros e Hin. rewrite B2, Hsb. cbn. rewrite A2.
        apply in_app_or in Hin. destruct Hin as [Hin|[<-|[]]].
        * destruct (mi_hit0 Hon e Hin) as (k & Hk1 & Hk2). exists k. split; [assumption|].
          rewrite dset_absent by exact Hget. rewrite dget_app, Hk2. reflexivity.
        * exists key. split; [exact Hkey|]. rewrite dset_absent by exact Hget.
          rewrite dget_app, Hget. cbn. rewrite pos_eqb_refl. rewrite Hr. reflexivity.
      + intros v' Hin. apply in_app_or in Hin. destruct Hin as [Hin|[<-|[]]].
        * destruct (mi_called0 Hon v' Hin) as (e & He & Hv). exists e. split; [apply in_or_app; left|]; assumption.
        * exists (p, v, r). split; [apply in_or_app; right; left|]; reflexivity.
  Qed.

  Lemma minv_refl s0 : minv s0 [] s0 [] [].
  Proof.
    constructor; intros; cbn; rewrite ?app_nil_r; auto; try contradiction;
      try (repeat split; auto; intros e []); try constructor.
  Qed.

  Lemma minv_check s0 tr s nc ks b s' : stop_check clk s = Ok (b, s') -> minv s0 tr s nc ks -> minv s0 tr s' nc ks.
  Proof.
    intros H M. apply stop_check_spec in H. destruct H as [_ ->]. destruct M. constructor; cbn; auto.
  Qed.

  Lemma reach_minv s0 tr s : reach sp f clk s0 tr s -> exists nc ks, minv s0 tr s nc ks.
  Proof.
    induction 1 as [|tr s s1 s2 p v r Hr (nc & ks & M) Hs R Ho Hk].
    - exists [], []. apply minv_refl.
    - destruct (reach_call _ _ _ _ _ _ Hr) as [Hcall _].
      destruct (minv_step _ _ _ _ _ _ _ _ _ _ M Hcall R) as (nc' & ks' & M').
      exists nc', ks'. eapply minv_check; eauto.
  Qed.

  Lemma ended_minv s0 n tr sE b : ended sp f clk s0 n tr sE b -> exists nc ks, minv s0 tr sE nc ks.
  Proof.
    intros [tr' s' Hr Hl | tr' s' s1 s2 p v r Hr Hl Hs R Ho Hk].
    - eapply reach_minv; eauto.
    - destruct (reach_minv _ _ _ Hr) as (nc & ks & M).
      destruct (reach_call _ _ _ _ _ _ Hr) as [Hcall _].
      destruct (minv_step _ _ _ _ _ _ _ _ _ _ M Hcall R) as (nc' & ks' & M').
      exists nc', ks'. eapply minv_check; eauto.
  Qed.

  (* two member value vectors with the same memory key are the same vector *)
  Lemma member_key_inj p1 v1 p2 v2 k :
    position2value sp p1 = Ok v1 -> position2value sp p2 = Ok v2 ->
    value2position sp v1 = Ok k -> value2position sp v2 = Ok k -> v1 = v2.
  Proof.
    intros H1 H2 K1 K2.
    destruct (value2position_of_position2value sp p1 v1 H1) as (k1 & A1 & B1 & _).
    destruct (value2position_of_position2value sp p2 v2 H2) as (k2 & A2 & B2 & _).
    assert (k1 = k) by congruence. assert (k2 = k) by congruence. subst. congruence.
  Qed.
End Mem.
