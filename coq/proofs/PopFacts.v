(* PopFacts.v — closure of the population optimizers' iterate steps (theories/Pop.v): whatever the draws and the
   oracle vectors (NaN-free), the emitted position is inside the box and satisfies the constraints (C01, C02), and at
   least one constraint evaluation was made (the step does not return an unchecked point). *)
Require Import Base Converter ConverterFacts CoreOpt CoreFacts Pop.
Open Scope Z_scope.

Section PopFacts.
  Variable sp : space.
  Variable cons : values -> bool.
  Variable fuel : nat.
  Variable rrp : Z * Z.
  Hypothesis Hdims : dims_ok sp.

  Notation emit := (emit_ok sp cons).

  Lemma nan_free_tail d t : nan_free (d :: t) -> nan_free t.
  Proof. intros H. inversion H; assumption. Qed.

  (* the decorator: either a fresh feasible random point or the body's result *)
  Lemma rand_iter_ok (P : pos -> Prop) t c body p t' c' :
    (forall q, emit q -> P q) ->
    (forall t0 p0 t0' c0, nan_free t0 -> body t0 = Ok (p0, t0', c0) -> P p0 /\ is_suffix t0' t0) ->
    nan_free t -> rand_iter sp cons fuel rrp t c body = Ok (p, t', c') -> P p /\ is_suffix t' t.
  Proof.
    intros HP Hbody Hn H. unfold rand_iter in H. destruct t as [|[| um ue | | |] t0]; try discriminate.
    pose proof (nan_free_tail _ _ Hn) as Hn0.
    destruct (dyadic_gt (fst rrp) (snd rrp) um ue).
    - destruct (move_random_ok _ _ _ _ _ _ _ _ H) as (A & B & _). split; [apply HP; exact A|].
      eapply is_suffix_trans; [exact B|apply is_suffix_cons].
    - destruct (Hbody _ _ _ _ Hn0 H) as (A & B). split; [exact A|].
      eapply is_suffix_trans; [exact B|apply is_suffix_cons].
  Qed.

  (* test, then fall back to move_climb *)
  Lemma or_climb_ok p t c q t' c' : in_box sp p -> nan_free t ->
    or_climb sp cons fuel p t c = Ok (q, t', c') -> emit q /\ is_suffix t' t /\ c < c'.
  Proof.
    intros Hb Hn H. unfold or_climb in H. destruct (feasible sp cons p) as [[|]|] eqn:F; cbn [bind] in H; try discriminate.
    - inversion H; subst. split; [split; assumption|]. split; [apply is_suffix_refl|lia].
    - destruct (move_climb_ok sp cons Hdims _ _ _ _ _ _ Hn H) as (A & B & C). split; [exact A|]. split; [exact B|lia].
  Qed.

  (* ---------- particle swarm ---------- *)
  Lemma move_linear_in_box cur t p t' c : length cur = length sp -> nan_free t ->
    move_linear sp cons fuel rrp cur t = Ok (p, t', c) -> in_box sp p /\ is_suffix t' t.
  Proof.
    intros Hl Hn H. unfold move_linear in H.
    apply (rand_iter_ok (in_box sp) _ _ _ _ _ _ (fun q Hq => proj1 Hq)) in H; [exact H| |exact Hn].
    intros t0 p0 t0' c0 Hn0 Hb. destruct t0 as [|[| m1 e1 | | |] [|[| m2 e2 | | |] t2]]; try discriminate.
    destruct (read_reals (length sp) t2) as [[vs t3]|] eqn:E; cbn [bind fst snd] in Hb; [|discriminate].
    inversion Hb; subst. destruct (read_reals_spec _ _ _ _ E) as (Hlen & Hs & _). split.
    - apply move_part_in_box; assumption.
    - eapply is_suffix_trans; [exact Hs|]. eapply is_suffix_trans; [apply is_suffix_cons|apply is_suffix_cons].
  Qed.

  Theorem pso_iterate_ok cur t p t' c : length cur = length sp -> nan_free t ->
    pso_iterate sp cons fuel rrp cur t = Ok (p, t', c) -> emit p /\ is_suffix t' t /\ 0 < c.
  Proof.
    intros Hl Hn H. unfold pso_iterate in H.
    destruct (move_linear sp cons fuel rrp cur t) as [[[q t1] c1]|] eqn:E; cbn [bind] in H; [|discriminate].
    destruct (move_linear_in_box _ _ _ _ _ Hl Hn E) as (Hb & Hs).
    assert (Hn1 : nan_free t1) by (eapply nan_free_suffix; eassumption).
    destruct (or_climb_ok _ _ _ _ _ _ Hb Hn1 H) as (A & B & C). split; [exact A|]. split; [eapply is_suffix_trans; eassumption|].
    (* the count: move_linear starts at 0 and never decreases *)
    assert (0 <= c1).
    { unfold move_linear, rand_iter in E. destruct t as [|[| um ue | | |] t0]; try discriminate.
      destruct (dyadic_gt (fst rrp) (snd rrp) um ue).
      - destruct (move_random_ok _ _ _ _ _ _ _ _ E) as (_ & _ & X). lia.
      - destruct t0 as [|[| m1 e1 | | |] [|[| m2 e2 | | |] t2]]; try discriminate.
        destruct (read_reals (length sp) t2) as [[vs t3]|]; cbn [bind fst snd] in E; [|discriminate]. inversion E; lia. }
    lia.
  Qed.

  (* ---------- spiral ---------- *)
  Lemma clip_trunc_range maxp x : 0 <= maxp -> x <> XNaN -> 0 <= clip_trunc maxp x <= maxp.
  Proof.
    intros Hm Hx. destruct x as [m e| | |]; cbn [clip_trunc]; try lia; [|congruence].
    destruct (Z.leb_spec 0 e); [lia|].
    assert (Hd : 0 < 2 ^ (- e)) by (apply Z.pow_pos_nonneg; lia).
    destruct (Z.ltb_spec m 0); [lia|]. destruct (Z.ltb_spec (maxp * 2 ^ (- e)) m); [lia|].
    split; [apply Z.div_pos; lia|]. apply Z.div_le_upper_bound; lia.
  Qed.

  Lemma spiral_point_in_box_gen (s : space) : dims_ok s -> forall xs, length xs = length s -> Forall (fun x => x <> XNaN) xs ->
    in_box s (map (fun mx => clip_trunc (fst mx) (snd mx)) (zip (max_positions s) xs)).
  Proof.
    unfold in_box, max_positions. induction 1 as [|dim s Hd Hs IH]; intros xs Hl Hx.
    - destruct xs; [constructor|discriminate].
    - destruct xs as [|x xs]; [discriminate|]. inversion Hx; subst. cbn. constructor.
      + pose proof (clip_trunc_range (zlen dim - 1) x ltac:(lia) H1). lia.
      + apply IH; [cbn in Hl; lia|assumption].
  Qed.

  Lemma move_spiral_in_box t p t' c : nan_free t ->
    move_spiral sp cons fuel rrp t = Ok (p, t', c) -> in_box sp p /\ is_suffix t' t.
  Proof.
    intros Hn H. unfold move_spiral in H.
    apply (rand_iter_ok (in_box sp) _ _ _ _ _ _ (fun q Hq => proj1 Hq)) in H; [exact H| |exact Hn].
    intros t0 p0 t0' c0 Hn0 Hb.
    destruct (read_reals (length sp) t0) as [[vs t3]|] eqn:E; cbn [bind fst snd] in Hb; [|discriminate].
    inversion Hb; subst. destruct (read_reals_spec _ _ _ _ E) as (Hlen & Hs & Hx). split; [|exact Hs].
    apply spiral_point_in_box_gen; [exact Hdims|exact Hlen|apply Hx; exact Hn0].
  Qed.

  Theorem spiral_iterate_ok t p t' c : nan_free t ->
    spiral_iterate sp cons fuel rrp t = Ok (p, t', c) -> emit p /\ is_suffix t' t.
  Proof.
    intros Hn H. unfold spiral_iterate in H.
    destruct (move_spiral sp cons fuel rrp t) as [[[q t1] c1]|] eqn:E; cbn [bind] in H; [|discriminate].
    destruct (move_spiral_in_box _ _ _ _ Hn E) as (Hb & Hs).
    assert (Hn1 : nan_free t1) by (eapply nan_free_suffix; eassumption).
    destruct (feasible sp cons q) as [[|]|] eqn:F; cbn [bind] in H; try discriminate.
    - inversion H; subst. split; [split; assumption|exact Hs].
    - apply (rand_iter_ok emit _ _ _ _ _ _ (fun q Hq => Hq)) in H; [|  |exact Hn1].
      + destruct H as (A & B). split; [exact A|eapply is_suffix_trans; eassumption].
      + intros t0 p0 t0' c0 Hn0 Hb0. destruct (move_climb_ok sp cons Hdims _ _ _ _ _ _ Hn0 Hb0) as (A & B & _). split; assumption.
  Qed.

  (* ---------- differential evolution ---------- *)
  Lemma constraint_loop_ok f : forall p t c q t' c', in_box sp p -> nan_free t ->
    constraint_loop sp cons fuel f p t c = Ok (q, t', c') -> emit q /\ is_suffix t' t /\ c < c'.
  Proof.
    induction f as [|f IH]; intros p t c q t' c' Hb Hn H; [discriminate|]. cbn [constraint_loop] in H.
    destruct (feasible sp cons p) as [[|]|] eqn:F; cbn [bind] in H; try discriminate.
    - inversion H; subst. split; [split; assumption|]. split; [apply is_suffix_refl|lia].
    - destruct (move_climb sp cons fuel t (c + 1)) as [[[p1 t1] c1]|] eqn:E; cbn [bind] in H; [|discriminate].
      destruct (move_climb_ok sp cons Hdims _ _ _ _ _ _ Hn E) as ((Hb1 & _) & Hs1 & Hc1).
      assert (Hn1 : nan_free t1) by (eapply nan_free_suffix; eassumption).
      destruct (IH _ _ _ _ _ _ Hb1 Hn1 H) as (A & B & C). split; [exact A|]. split; [eapply is_suffix_trans; eassumption|lia].
  Qed.

  (* an in-box integer position passes through conv2pos unchanged *)
  Lemma conv2pos_id_gen (s : space) : forall p, in_box s p ->
    map (fun mr => clip_int (fst mr) (snd mr)) (zip (max_positions s) (map rint_x (xpos p))) = p /\
    Forall (fun c => c = (Some 0, false)) (map (fun mr => comp_dist2 (fst mr) (snd mr)) (zip (max_positions s) (map rint_x (xpos p)))).
  Proof.
    unfold in_box, max_positions, xpos. induction 1 as [|dim z s p Hz Hr IH]; cbn; [split; constructor|].
    destruct IH as (IH1 & IH2). rewrite !Z.mul_1_r.
    replace (Z.min (Z.max z 0) (zlen dim - 1)) with z by lia. split.
    - f_equal. exact IH1.
    - constructor; [rewrite Z.sub_diag; reflexivity|exact IH2].
  Qed.
  Lemma rint_dyadic_int' z : rint_dyadic z 0 = z.
  Proof. unfold rint_dyadic. cbn. lia. Qed.

  Lemma conv2pos_id p t c : in_box sp p -> conv2pos sp cons fuel (xpos p) t c = Ok (p, t, c).
  Proof.
    intros Hb. unfold conv2pos. destruct (conv2pos_id_gen sp p Hb) as (E1 & E2).
    assert (F : far_outside sp (map rint_x (xpos p)) = false).
    { unfold far_outside. cbv zeta.
      set (cs := map (fun mr : Z * rint_t => comp_dist2 (fst mr) (snd mr)) (zip (max_positions sp) (map rint_x (xpos p)))) in *.
      assert (A : existsb snd cs = false).
      { clear -E2. induction E2 as [|x l Hx _ IH]; cbn; [reflexivity|]. rewrite Hx. cbn. exact IH. }
      assert (B : existsb (fun c0 => match fst c0 with None => true | Some _ => false end) cs = false).
      { clear -E2. induction E2 as [|x l Hx _ IH]; cbn; [reflexivity|]. rewrite Hx. cbn. exact IH. }
      assert (C : forall a, fold_left (fun a c0 => a + match fst c0 with Some z => z | None => 0 end) cs a = a).
      { clear -E2. induction E2 as [|x l Hx _ IH]; intros a; cbn; [reflexivity|]. rewrite Hx. cbn. rewrite Z.add_0_r. apply IH. }
      rewrite A, B, C. apply Z.ltb_ge. cbn. nia. }
    rewrite F, E1. reflexivity.
  Qed.

  Lemma choose2_len ch a b : length ch = length a -> length a = length b -> length (choose2 ch a b) = length a.
  Proof.
    revert a b. induction ch as [|c ch IH]; intros [|x a] [|y b] H1 H2; cbn in *; try discriminate; try reflexivity.
    f_equal. apply IH; lia.
  Qed.
  Lemma choose2_nonan ch a b : Forall (fun x => x <> XNaN) a -> Forall (fun x => x <> XNaN) b -> Forall (fun x => x <> XNaN) (choose2 ch a b).
  Proof.
    revert a b. induction ch as [|c ch IH]; intros [|x a] [|y b] Ha Hb; cbn; try constructor.
    - inversion Ha; inversion Hb; subst. destruct (c =? 0); assumption.
    - inversion Ha; inversion Hb; subst. apply IH; assumption.
  Qed.

  Lemma read_choices_spec k hi : forall t zs t', read_choices k hi t = Ok (zs, t') -> length zs = k /\ is_suffix t' t /\ Forall (fun z => 0 <= z < hi) zs.
  Proof.
    induction k as [|k IH]; intros t zs t' H; cbn in H.
    - inversion H; subst. split; [reflexivity|]. split; [apply is_suffix_refl|constructor].
    - destruct t as [|[z| | | |] t0]; try discriminate.
      destruct ((0 <=? z) && (z <? hi)) eqn:R; [|discriminate].
      destruct (read_choices k hi t0) as [[zs0 t1]|] eqn:E; cbn [bind fst snd] in H; [|discriminate]. inversion H; subst.
      destruct (IH _ _ _ E) as (A & B & C). split; [cbn; lia|]. split.
      + eapply is_suffix_trans; [exact B|apply is_suffix_cons].
      + constructor; [lia|exact C].
  Qed.

  Lemma xpos_nonan p : Forall (fun x => x <> XNaN) (xpos p).
  Proof. unfold xpos. apply Forall_forall. intros x Hx. apply in_map_iff in Hx. destruct Hx as (z & <- & _). discriminate. Qed.

  Theorem de_iterate_ok pop target t p t' c : length target = length sp -> nan_free t ->
    de_iterate sp cons fuel pop target t = Ok (p, t', c) -> emit p /\ is_suffix t' t /\ 0 < c.
  Proof.
    intros Hl Hn H. unfold de_iterate in H.
    destruct t as [|[i1| | | |] [|[i2| | | |] [|[i3| | | |] t1]]]; try discriminate.
    destruct (negb _); [discriminate|].
    assert (Hn1 : nan_free t1) by (do 3 apply nan_free_tail in Hn; exact Hn).
    destruct (read_reals (length sp) t1) as [[mv t2]|] eqn:E1; cbn [bind fst snd] in H; [|discriminate].
    destruct (read_reals_spec _ _ _ _ E1) as (Lm & S1 & Xm). specialize (Xm Hn1).
    destruct (read_choices (length sp) 2 t2) as [[ch t3]|] eqn:E2; cbn [bind fst snd] in H; [|discriminate].
    destruct (read_choices_spec _ _ _ _ _ E2) as (Lc & S2 & _).
    destruct (conv2pos sp cons fuel (choose2 ch (xpos target) mv) t3 0) as [[[q t4] c4]|] eqn:E3; cbn [bind] in H; [|discriminate].
    assert (Lx : length (xpos target) = length sp) by (unfold xpos; rewrite map_length; exact Hl).
    destruct (conv2pos_ok sp cons Hdims _ _ _ _ _ _ _
                (eq_trans (choose2_len ch (xpos target) mv ltac:(lia) ltac:(lia)) Lx)
                (choose2_nonan ch _ _ (xpos_nonan target) Xm) E3) as (Hb & S3 & C3).
    destruct (constraint_loop sp cons fuel fuel q t4 c4) as [[[q2 t5] c5]|] eqn:E4; cbn [bind] in H; [|discriminate].
    assert (Hn4 : nan_free t4).
    { eapply nan_free_suffix; [|exact Hn1]. eapply is_suffix_trans; [exact S3|]. eapply is_suffix_trans; eassumption. }
    destruct (constraint_loop_ok _ _ _ _ _ _ _ Hb Hn4 E4) as ((Hb2 & F2) & S4 & C4).
    rewrite (conv2pos_id q2 t5 c5 Hb2) in H. inversion H; subst.
    split; [split; assumption|]. split; [|lia].
    eapply is_suffix_trans; [exact S4|]. eapply is_suffix_trans; [exact S3|]. eapply is_suffix_trans; [exact S2|].
    eapply is_suffix_trans; [exact S1|]. eapply is_suffix_trans; [apply is_suffix_cons|]. eapply is_suffix_trans; apply is_suffix_cons.
  Qed.

  (* ---------- recombination (ES / GA) ---------- *)
  Lemma nth_nowrap_in {A} (l : list A) i x : nth_nowrap l i = Ok x -> In x l.
  Proof.
    unfold nth_nowrap. destruct ((i <? 0) || (zlen l <=? i)); [discriminate|].
    destruct (nth_error l (Z.to_nat i)) eqn:E; [|discriminate]. intros H. inversion H; subst. eapply nth_error_In; eassumption.
  Qed.

  Lemma nth_nowrap_forall2 {A B} (R : A -> B -> Prop) la lb (i : nat) y : Forall2 R la lb ->
    nth_nowrap lb (Z.of_nat i) = Ok y -> exists x, nth_error la i = Some x /\ R x y.
  Proof.
    intros HF H. unfold nth_nowrap in H. destruct ((Z.of_nat i <? 0) || (zlen lb <=? Z.of_nat i)); [discriminate|].
    rewrite Nat2Z.id in H. destruct (nth_error lb i) eqn:E; [|discriminate]. inversion H; subst. clear H.
    revert i E. induction HF as [|a b la lb Hab _ IH]; intros [|i] E; cbn in E; try discriminate.
    - inversion E; subst. exists a. split; [reflexivity|exact Hab].
    - apply IH. exact E.
  Qed.

  (* every coordinate of the child is the same coordinate of some parent *)
  Lemma choose_k_in_box parents : Forall (in_box sp) parents -> forall ch (i : nat) child,
    choose_k ch parents i = Ok child -> Forall2 (fun dim z => 0 <= z < zlen dim) (skipn i sp) child -> True.
  Proof. trivial. Qed.

  Lemma choose_k_box parents : Forall (in_box sp) parents -> forall ch (i : nat) child,
    (i + length ch = length sp)%nat -> choose_k ch parents i = Ok child ->
    Forall2 (fun dim z => 0 <= z < zlen dim) (skipn i sp) child.
  Proof.
    intros HP. induction ch as [|c ch IH]; intros i child Hlen H; cbn [choose_k] in H.
    - inversion H; subst. cbn in Hlen. rewrite Nat.add_0_r in Hlen. subst i. rewrite skipn_all. constructor.
    - destruct (nth_nowrap parents c) as [par|] eqn:E1; cbn [bind] in H; [|discriminate].
      destruct (nth_nowrap par (Z.of_nat i)) as [x|] eqn:E2; cbn [bind] in H; [|discriminate].
      destruct (choose_k ch parents (S i)) as [rest|] eqn:E3; cbn [bind] in H; [|discriminate]. inversion H; subst.
      assert (Hpar : in_box sp par). { rewrite Forall_forall in HP. apply HP. eapply nth_nowrap_in; eassumption. }
      destruct (nth_nowrap_forall2 _ _ _ _ _ Hpar E2) as (dim & Ed & Hx).
      assert (Hs : skipn i sp = dim :: skipn (S i) sp).
      { clear -Ed. revert i Ed. induction sp as [|d s IHs]; intros [|i] Ed; cbn in *; try discriminate.
        - inversion Ed; reflexivity.
        - apply IHs. exact Ed. }
      rewrite Hs. constructor; [exact Hx|]. apply IH; [cbn in Hlen; lia|exact E3].
  Qed.

  Theorem cross_or_climb_ok parents t p t' c : Forall (in_box sp) parents -> nan_free t ->
    cross_or_climb sp cons fuel parents t = Ok (p, t', c) -> emit p /\ is_suffix t' t /\ 0 < c.
  Proof.
    intros HP Hn H. unfold cross_or_climb, recombine in H.
    destruct (read_choices (length sp) (zlen parents) t) as [[ch t1]|] eqn:E1; cbn [bind fst snd] in H; [|discriminate].
    destruct (read_choices_spec _ _ _ _ _ E1) as (Lc & S1 & _).
    destruct (choose_k ch parents 0) as [child|] eqn:E2; cbn [bind fst snd] in H; [|discriminate].
    assert (Hb : in_box sp child) by (apply (choose_k_box parents HP ch 0%nat child); [cbn; lia|exact E2]).
    assert (Hn1 : nan_free t1) by (eapply nan_free_suffix; eassumption).
    destruct (or_climb_ok _ _ _ _ _ _ Hb Hn1 H) as (A & B & C). split; [exact A|]. split; [eapply is_suffix_trans; eassumption|lia].
  Qed.

  (* ---------- evolution strategy ---------- *)
  Lemma hill_iterate_ok t p t' c : nan_free t -> hill_iterate sp cons fuel rrp t = Ok (p, t', c) -> emit p /\ is_suffix t' t.
  Proof.
    intros Hn H. unfold hill_iterate in H.
    apply (rand_iter_ok emit _ _ _ _ _ _ (fun q Hq => Hq)) in H; [exact H| |exact Hn].
    intros t0 p0 t0' c0 Hn0 Hb0. destruct (move_climb_ok sp cons Hdims _ _ _ _ _ _ Hn0 Hb0) as (A & B & _). split; assumption.
  Qed.

  Theorem es_iterate_ok mut curs t p t' c : Forall (in_box sp) curs -> nan_free t ->
    es_iterate sp cons fuel rrp mut curs t = Ok (p, t', c) -> emit p /\ is_suffix t' t.
  Proof.
    intros HP Hn H. unfold es_iterate in H. destruct (zlen curs =? 1); [eapply hill_iterate_ok; eassumption|].
    destruct t as [|[r| | | |] [|[| um ue | | |] t1]]; try discriminate.
    destruct (negb ((0 <=? r) && (r <? zlen curs))); [discriminate|].
    assert (Hn1 : nan_free t1) by (do 2 apply nan_free_tail in Hn; exact Hn).
    assert (S1 : is_suffix t1 (DZ r :: DF um ue :: t1)) by (eapply is_suffix_trans; apply is_suffix_cons).
    destruct (dyadic_le um ue (fst mut) (snd mut)).
    - destruct (hill_iterate_ok _ _ _ _ Hn1 H) as (A & B). split; [exact A|eapply is_suffix_trans; eassumption].
    - destruct t1 as [|[r2| | | |] t2]; try discriminate.
      destruct (negb _); [discriminate|].
      destruct (nth_nowrap curs r) as [a|] eqn:Ea; cbn [bind] in H; [|discriminate].
      destruct (nth_nowrap curs r2) as [b|] eqn:Eb; cbn [bind] in H; [|discriminate].
      assert (HP2 : Forall (in_box sp) [a; b]).
      { rewrite Forall_forall in HP. constructor; [apply HP; eapply nth_nowrap_in; eassumption|].
        constructor; [apply HP; eapply nth_nowrap_in; eassumption|constructor]. }
      assert (Hn2 : nan_free t2) by (apply nan_free_tail in Hn1; exact Hn1).
      destruct (cross_or_climb_ok _ _ _ _ _ HP2 Hn2 H) as (A & B & _). split; [exact A|].
      eapply is_suffix_trans; [exact B|]. eapply is_suffix_trans; [apply is_suffix_cons|exact S1].
  Qed.

  (* ---------- genetic algorithm ---------- *)
  Lemma recombine_ok parents t child t' : Forall (in_box sp) parents -> recombine sp parents t = Ok (child, t') ->
    in_box sp child /\ is_suffix t' t.
  Proof.
    intros HP H. unfold recombine in H.
    destruct (read_choices (length sp) (zlen parents) t) as [[ch t1]|] eqn:E1; cbn [bind fst snd] in H; [|discriminate].
    destruct (read_choices_spec _ _ _ _ _ E1) as (Lc & S1 & _).
    destruct (choose_k ch parents 0) as [c0|] eqn:E2; cbn [bind] in H; [|discriminate]. inversion H; subst.
    split; [apply (choose_k_box parents HP ch 0%nat child); [cbn; lia|exact E2]|exact S1].
  Qed.

  Lemma make_offspring_ok parents : Forall (in_box sp) parents -> forall k t c qs t' c', nan_free t ->
    make_offspring sp cons fuel k parents t c = Ok (qs, t', c') -> Forall emit qs /\ is_suffix t' t.
  Proof.
    intros HP. induction k as [|k IH]; intros t c qs t' c' Hn H; cbn [make_offspring] in H.
    - inversion H; subst. split; [constructor|apply is_suffix_refl].
    - destruct (recombine sp parents t) as [[ch t0]|] eqn:ER; cbn [bind fst snd] in H; [|discriminate].
      destruct (recombine_ok _ _ _ _ HP ER) as (Hb & S0).
      assert (Hn0 : nan_free t0) by (eapply nan_free_suffix; eassumption).
      destruct (constraint_loop sp cons fuel fuel ch t0 c) as [[[q t1] c1]|] eqn:EC; cbn [bind] in H; [|discriminate].
      destruct (constraint_loop_ok _ _ _ _ _ _ _ Hb Hn0 EC) as (Hq & S1 & _).
      assert (Hn1 : nan_free t1) by (eapply nan_free_suffix; eassumption).
      destruct (make_offspring sp cons fuel k parents t1 c1) as [[[qs0 t2] c2]|] eqn:EM; cbn [bind] in H; [|discriminate].
      inversion H; subst. destruct (IH _ _ _ _ _ Hn1 EM) as (A & B). split; [constructor; assumption|].
      eapply is_suffix_trans; [exact B|]. eapply is_suffix_trans; eassumption.
  Qed.

  Lemma replace_nth_forall {A} (P : A -> Prop) l i x : Forall P l -> P x -> Forall P (replace_nth l i x).
  Proof.
    intros HL Hx. revert i. induction HL as [|y l Hy HL' IH]; intros i; cbn; [constructor|].
    destruct i; constructor; try assumption. apply IH.
  Qed.

  Lemma map_res_nth_forall (P : pos -> Prop) (l : list pos) idx out : Forall P l -> map_res (nth_nowrap l) idx = Ok out -> Forall P out.
  Proof.
    intros HL. revert out. induction idx as [|i idx IH]; intros out H; cbn [map_res] in H.
    - inversion H; constructor.
    - destruct (nth_nowrap l i) as [x|] eqn:E; cbn [bind] in H; [|discriminate].
      destruct (map_res (nth_nowrap l) idx) as [ys|] eqn:E2; cbn [bind] in H; [|discriminate]. inversion H; subst.
      constructor; [rewrite Forall_forall in HL; apply HL; eapply nth_nowrap_in; eassumption|apply IH; reflexivity].
  Qed.

  Lemma read_distinct_suffix k hi : forall seen t zs t', read_distinct k hi seen t = Ok (zs, t') -> is_suffix t' t.
  Proof.
    induction k as [|k IH]; intros seen t zs t' H; cbn in H; [inversion H; apply is_suffix_refl|].
    destruct t as [|[z| | | |] t0]; try discriminate. destruct (_ && _); [|discriminate].
    destruct (read_distinct k hi (z :: seen) t0) as [[zs0 t1]|] eqn:E; cbn [bind fst snd] in H; [|discriminate]. inversion H; subst.
    eapply is_suffix_trans; [eapply IH; exact E|apply is_suffix_cons].
  Qed.

  Lemma ga_crossover_ok n_parents n_off news t qs t' c : Forall (in_box sp) news -> nan_free t ->
    ga_crossover sp cons fuel n_parents n_off news t = Ok (qs, t', c) -> Forall emit qs /\ is_suffix t' t.
  Proof.
    intros HP Hn H. unfold ga_crossover in H. destruct t as [|[| rm re | | |] t1]; try discriminate.
    assert (Hn1 : nan_free t1) by (apply nan_free_tail in Hn; exact Hn).
    assert (HB : Forall (in_box sp) (firstn (Z.to_nat (zlen news / 2)) news)).
    { apply Forall_forall. intros x Hx. rewrite Forall_forall in HP. apply HP.
      rewrite <- (firstn_skipn (Z.to_nat (zlen news / 2)) news). apply in_or_app. left. exact Hx. }
    assert (HW : Forall (in_box sp) (skipn (Z.to_nat (zlen news / 2)) news)).
    { apply Forall_forall. intros x Hx. rewrite Forall_forall in HP. apply HP.
      rewrite <- (firstn_skipn (Z.to_nat (zlen news / 2)) news). apply in_or_app. right. exact Hx. }
    match type of H with context[bind ?X _] => destruct X as [[best1 t3]|] eqn:EB end; cbn [bind] in H; [|discriminate].
    assert (HB1 : Forall (in_box sp) best1 /\ is_suffix t3 t1).
    { destruct (negb (dyadic_gt rm re 5764607523034235 (-59))).
      - destruct t1 as [|[j| | | |] [|[i| | | |] t2]]; try discriminate.
        destruct (negb _); [discriminate|].
        destruct (nth_nowrap (skipn (Z.to_nat (zlen news / 2)) news) j) as [w|] eqn:EW; cbn [bind] in EB; [|discriminate].
        inversion EB; subst. split.
        + apply replace_nth_forall; [exact HB|]. rewrite Forall_forall in HW. apply HW. eapply nth_nowrap_in; eassumption.
        + eapply is_suffix_trans; apply is_suffix_cons.
      - inversion EB; subst. split; [exact HB|apply is_suffix_refl]. }
    destruct HB1 as (HB1 & S3).
    destruct (zlen best1 <? n_parents); [discriminate|].
    destruct (read_distinct (Z.to_nat n_parents) (zlen best1) [] t3) as [[idx t4]|] eqn:ED; cbn [bind fst snd] in H; [|discriminate].
    destruct (map_res (nth_nowrap best1) idx) as [parents|] eqn:EP; cbn [bind] in H; [|discriminate].
    pose proof (map_res_nth_forall _ _ _ _ HB1 EP) as HPar.
    pose proof (read_distinct_suffix _ _ _ _ _ _ ED) as S4.
    assert (Hn4 : nan_free t4).
    { eapply nan_free_suffix; [|exact Hn1]. eapply is_suffix_trans; eassumption. }
    destruct (make_offspring_ok parents HPar _ _ _ _ _ _ Hn4 H) as (A & B). split; [exact A|].
    eapply is_suffix_trans; [exact B|]. eapply is_suffix_trans; [exact S4|]. eapply is_suffix_trans; [exact S3|apply is_suffix_cons].
  Qed.

  Theorem ga_iterate_ok mut n_parents n_off news queue t p t' c queue' : Forall (in_box sp) news -> Forall emit queue -> nan_free t ->
    ga_iterate sp cons fuel rrp mut n_parents n_off news queue t = Ok (p, t', c, queue') ->
    emit p /\ Forall emit queue' /\ is_suffix t' t.
  Proof.
    intros HP HQ Hn H. unfold ga_iterate in H. destruct (zlen news =? 1).
    - destruct (hill_iterate sp cons fuel rrp t) as [[[q t0] c0]|] eqn:EH; cbn [bind] in H; [|discriminate]. inversion H; subst.
      destruct (hill_iterate_ok _ _ _ _ Hn EH) as (A & B). split; [exact A|]. split; assumption.
    - destruct t as [|[r| | | |] [|[| um ue | | |] t1]]; try discriminate.
      destruct (negb ((0 <=? r) && (r <? zlen news))); [discriminate|].
      assert (Hn1 : nan_free t1) by (do 2 apply nan_free_tail in Hn; exact Hn).
      assert (S1 : is_suffix t1 (DZ r :: DF um ue :: t1)) by (eapply is_suffix_trans; apply is_suffix_cons).
      destruct (dyadic_le um ue (fst mut) (snd mut)).
      + destruct (hill_iterate sp cons fuel rrp t1) as [[[q t0] c0]|] eqn:EH; cbn [bind] in H; [|discriminate]. inversion H; subst.
        destruct (hill_iterate_ok _ _ _ _ Hn1 EH) as (A & B). split; [exact A|]. split; [assumption|eapply is_suffix_trans; eassumption].
      + destruct queue as [|q rest].
        * destruct (ga_crossover sp cons fuel n_parents n_off news t1) as [[[qs t2] c2]|] eqn:EC; cbn [bind] in H; [|discriminate].
          destruct (ga_crossover_ok _ _ _ _ _ _ _ HP Hn1 EC) as (A & B).
          destruct qs as [|q rest]; [discriminate|]. inversion H; subst. inversion A; subst.
          split; [assumption|]. split; [assumption|eapply is_suffix_trans; eassumption].
        * inversion H; subst. inversion HQ; subst. split; [assumption|]. split; assumption.
  Qed.

  (* ---------- pattern search ---------- *)
  Theorem pattern_iterate_ok queue t p t' c queue' : Forall (in_box sp) queue -> nan_free t ->
    pattern_iterate sp cons fuel rrp queue t = Ok (p, t', c, queue') -> emit p /\ Forall (in_box sp) queue' /\ is_suffix t' t /\ 0 < c.
  Proof.
    intros HQ Hn H. unfold pattern_iterate in H. destruct t as [|[| um ue | | |] t0]; try discriminate.
    pose proof (nan_free_tail _ _ Hn) as Hn0.
    destruct (dyadic_gt (fst rrp) (snd rrp) um ue).
    - destruct (move_random sp cons fuel t0 0) as [[[q t1] c1]|] eqn:E; cbn [bind] in H; [|discriminate]. inversion H; subst.
      destruct (move_random_ok _ _ _ _ _ _ _ _ E) as (A & B & C). split; [exact A|]. split; [exact HQ|].
      split; [eapply is_suffix_trans; [exact B|apply is_suffix_cons]|lia].
    - destruct queue as [|q rest]; [discriminate|]. inversion HQ; subst.
      destruct (or_climb sp cons fuel q t0 0) as [[[q1 t1] c1]|] eqn:E; cbn [bind] in H; [|discriminate]. inversion H; subst.
      destruct (or_climb_ok _ _ _ _ _ _ H2 Hn0 E) as (A & B & C). split; [exact A|]. split; [assumption|].
      split; [eapply is_suffix_trans; [exact B|apply is_suffix_cons]|lia].
  Qed.

  (* ---------- downhill simplex ---------- *)
  Theorem vec_iterate_ok xs t p t' c : length xs = length sp -> Forall (fun x => x <> XNaN) xs -> nan_free t ->
    vec_iterate sp cons fuel xs t = Ok (p, t', c) -> emit p /\ is_suffix t' t /\ 0 < c.
  Proof.
    intros Hl Hx Hn H. unfold vec_iterate in H.
    destruct (conv2pos sp cons fuel xs t 0) as [[[q t1] c1]|] eqn:E; cbn [bind] in H; [|discriminate].
    destruct (conv2pos_ok sp cons Hdims _ _ _ _ _ _ _ Hl Hx E) as (Hb & S1 & C1).
    assert (Hn1 : nan_free t1) by (eapply nan_free_suffix; eassumption).
    destruct (or_climb_ok _ _ _ _ _ _ Hb Hn1 H) as (A & B & C). split; [exact A|]. split; [eapply is_suffix_trans; eassumption|lia].
  Qed.

  (* ---------- Powell / DIRECT ---------- *)
  Lemma in_box_b_true (s : space) p : in_box_b s p = true -> in_box s p.
  Proof.
    unfold in_box. revert p. induction s as [|dim s IH]; intros [|z p] H; cbn in H; try discriminate; [constructor|].
    apply andb_prop in H. destruct H as [H1 H2]. apply andb_prop in H1. destruct H1 as [A B].
    constructor; [lia|apply IH; exact H2].
  Qed.

  Theorem cand_iterate_ok cand t p t' c : in_box_b sp cand = true -> nan_free t ->
    cand_iterate sp cons fuel cand t = Ok (p, t', c) -> emit p /\ is_suffix t' t /\ 0 < c.
  Proof.
    intros Hb Hn H. destruct (or_climb_ok _ _ _ _ _ _ (in_box_b_true _ _ Hb) Hn H) as (A & B & C). split; [exact A|]. split; [exact B|lia].
  Qed.

  Theorem powell_iterate_ok cand t p t' c : in_box_b sp cand = true -> nan_free t ->
    powell_iterate sp cons fuel rrp cand t = Ok (p, t', c) -> emit p /\ is_suffix t' t.
  Proof.
    intros Hb Hn H. unfold powell_iterate in H.
    apply (rand_iter_ok emit _ _ _ _ _ _ (fun q Hq => Hq)) in H; [exact H| |exact Hn].
    intros t0 p0 t0' c0 Hn0 H0. destruct (or_climb_ok _ _ _ _ _ _ (in_box_b_true _ _ Hb) Hn0 H0) as (A & B & _). split; assumption.
  Qed.
End PopFacts.

(* ---------- model-based optimizers ---------- *)
Require Import Smbo.
Lemma pos_eqb_true (a b : pos) : pos_eqb a b = true -> a = b.
Proof.
  revert b. induction a as [|x a IH]; intros [|y b] H; cbn in H; try discriminate; [reflexivity|].
  apply andb_prop in H. destruct H as [H1 H2]. apply Z.eqb_eq in H1. subst. f_equal. apply IH. exact H2.
Qed.

Theorem smbo_proposal_emit sp cons (comb : list pos) acq i p : dims_ok sp ->
  forallb (emit_b sp cons) comb = true -> proposal_ok comb acq i p = true -> emit_ok sp cons p.
Proof.
  intros Hd HC HP. unfold proposal_ok in HP.
  destruct (nth_error comb i) as [q|] eqn:E; [|discriminate]. destruct (nth_error acq i); [|discriminate].
  apply andb_prop in HP. destruct HP as [HP _]. apply andb_prop in HP. destruct HP as [HP _]. apply pos_eqb_true in HP. subst q.
  rewrite forallb_forall in HC. specialize (HC p (nth_error_In _ _ E)). unfold emit_b in HC.
  apply andb_prop in HC. destruct HC as [HB HF]. split; [apply in_box_b_true; exact HB|].
  destruct (feasible sp cons p) as [[|]|]; try discriminate. reflexivity.
Qed.
