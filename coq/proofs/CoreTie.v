(* CoreTie.v — the moves GENERATED from /repo's core_optimizer.py (generated/CoreGen.v: move_random, conv2pos, move_climb and the
   random_iteration wrapper) against the hand model theories/CoreOpt.v, for every space, constraint, tape, counter and fuel.
   move_random and conv2pos are EQUAL to the model (results and errors); move_climb has the same input/output relation (the generated
   loop hands the whole fuel to the inner conv2pos on every round, the model the remaining fuel, so the two differ only in when
   OutOfFuel is reported); the theorems of proofs/CoreFacts.v are then restated for the generated definitions. *)
Require Import Base PyPrims PyPrimsQ Converter CoreOpt ListFacts ConverterFacts CoreFacts CoreGen.
From RecordUpdate Require Import RecordSet.
Import RecordSetNotations.
Open Scope Z_scope.

Section CoreTie.
  Variable sp : space.
  Variable cons : values -> bool.

  Definition abs_out (r : res (g_core * pos)) : res (pos * tape * Z) :=
    match r with Ok (s, p) => Ok (p, cg_tape s, cg_ncalls s) | Err e => Err e end.

  (* ---------- move_random: equal ---------- *)
  Theorem move_random_tie fuel : forall self,
    abs_out (g_core_move_random sp cons fuel self) = move_random sp cons fuel (cg_tape self) (cg_ncalls self).
  Proof.
    induction fuel as [|f IH]; intros [t c]; [reflexivity|].
    unfold g_core_move_random. cbn [py_while_ret move_random cg_tape cg_ncalls]. unfold cg_draw_position. cbn [cg_tape].
    destruct (draw_position (dim_sizes sp) t) as [[q t1]|e]; cbn [bind fst snd]; [|reflexivity].
    unfold cg_not_in_constraint.
    destruct (feasible sp cons q) as [[|]|e]; cbn [bind]; try reflexivity.
    specialize (IH (mkGCore t1 (c + 1))). unfold g_core_move_random in IH. cbn [cg_tape cg_ncalls] in IH. exact IH.
  Qed.

  (* ---------- conv2pos: equal ---------- *)
  Theorem conv2pos_tie fuel self xs :
    abs_out (g_core_conv2pos sp cons fuel self xs) = conv2pos sp cons fuel xs (cg_tape self) (cg_ncalls self).
  Proof.
    unfold g_core_conv2pos, conv2pos. destruct (far_outside sp (map rint_x xs)).
    - rewrite <- move_random_tie. destruct (g_core_move_random sp cons fuel self) as [[s p]|e]; reflexivity.
    - reflexivity.
  Qed.

  (* ---------- fuel monotonicity of the model (an Ok result does not depend on the fuel) ---------- *)
  Lemma move_random_mono f : forall f' t c r, (f <= f')%nat -> move_random sp cons f t c = Ok r -> move_random sp cons f' t c = Ok r.
  Proof.
    induction f as [|f IH]; intros f' t c r Hle H; [discriminate|].
    destruct f' as [|f']; [lia|]. cbn [move_random] in *.
    destruct (draw_position (dim_sizes sp) t) as [[q t1]|e]; cbn [bind fst snd] in *; [|discriminate].
    destruct (feasible sp cons q) as [[|]|e]; cbn [bind] in *; try discriminate; [exact H|].
    apply IH; [lia|exact H].
  Qed.
  Lemma conv2pos_mono f f' xs t c r : (f <= f')%nat -> conv2pos sp cons f xs t c = Ok r -> conv2pos sp cons f' xs t c = Ok r.
  Proof. unfold conv2pos. intros Hle. destruct (far_outside sp (map rint_x xs)); [apply move_random_mono; exact Hle|trivial]. Qed.
  Lemma move_climb_mono f : forall f' t c r, (f <= f')%nat -> move_climb sp cons f t c = Ok r -> move_climb sp cons f' t c = Ok r.
  Proof.
    induction f as [|f IH]; intros f' t c r Hle H; [discriminate|].
    destruct f' as [|f']; [lia|]. cbn [move_climb] in *.
    destruct (read_reals (length sp) t) as [[xs t1]|e]; cbn [bind fst snd] in *; [|discriminate].
    destruct (conv2pos sp cons (S f) xs t1 c) as [[[q t2] c2]|e] eqn:E; cbn [bind] in H; [|discriminate].
    rewrite (conv2pos_mono (S f) (S f') _ _ _ _ ltac:(lia) E). cbn [bind].
    destruct (feasible sp cons q) as [[|]|e]; cbn [bind] in *; try discriminate; [exact H|].
    apply IH; [lia|exact H].
  Qed.

  (* ---------- move_climb: the loop with inner fuel F ---------- *)
  Definition climb_body (F : nat) (st : pos * g_core) : res ((pos * g_core) + (g_core * pos)) :=
    let '(pos, self) := st in
    do (self, tmp1) <- cg_sample sp self; let pos_normal_v := tmp1 in
    do (self, tmp2) <- g_core_conv2pos sp cons F self pos_normal_v; let pos_v := tmp2 in
    do (self, tmp3) <- cg_not_in_constraint sp cons self pos_v;
    if tmp3 then (Ok (inr (self, pos_v))) else (Ok (inl (pos_v, self))).

  Lemma g_move_climb_unfold fuel self p0 : g_core_move_climb sp cons fuel self p0 = py_while_ret fuel (climb_body fuel) (p0, self).
  Proof. reflexivity. Qed.

  (* generated Ok -> model Ok (with enough fuel) *)
  Lemma climb_loop_to_model F n : forall p0 self s' p, py_while_ret n (climb_body F) (p0, self) = Ok (s', p) ->
    move_climb sp cons (n + F) (cg_tape self) (cg_ncalls self) = Ok (p, cg_tape s', cg_ncalls s').
  Proof.
    induction n as [|n IH]; intros p0 [t c] s' p H; [discriminate|].
    cbn [py_while_ret climb_body] in H. cbn [Nat.add move_climb cg_tape cg_ncalls].
    unfold cg_sample in H. cbn [cg_tape] in H.
    destruct (read_reals (length sp) t) as [[xs t1]|e]; cbn [bind fst snd] in *; [|discriminate].
    pose proof (conv2pos_tie F (mkGCore t c <| cg_tape := t1 |>) xs) as T. cbn in T.
    destruct (g_core_conv2pos sp cons F (mkGCore t c <| cg_tape := t1 |>) xs) as [[s2 q]|e] eqn:E; cbn [bind] in H; [|discriminate].
    cbn [abs_out] in T. symmetry in T.
    rewrite (conv2pos_mono F (S (n + F)) _ _ _ _ ltac:(lia) T). cbn [bind].
    unfold cg_not_in_constraint in H.
    destruct (feasible sp cons q) as [[|]|e]; cbn [bind] in *; try discriminate.
    - inversion H; subst. destruct s2; reflexivity.
    - specialize (IH q (s2 <| cg_ncalls := cg_ncalls s2 + 1 |>) s' p H). destruct s2 as [t2 c2]. cbn in IH. exact IH.
  Qed.

  (* model Ok -> generated Ok (inner fuel at least the model's) *)
  Lemma model_to_climb_loop n : forall F p0 self p t' c', (n <= F)%nat ->
    move_climb sp cons n (cg_tape self) (cg_ncalls self) = Ok (p, t', c') ->
    py_while_ret n (climb_body F) (p0, self) = Ok (mkGCore t' c', p).
  Proof.
    induction n as [|n IH]; intros F p0 [t c] p t' c' Hle H; [discriminate|].
    cbn [move_climb cg_tape cg_ncalls] in H. cbn [py_while_ret climb_body]. unfold cg_sample. cbn [cg_tape].
    destruct (read_reals (length sp) t) as [[xs t1]|e]; cbn [bind fst snd] in *; [|discriminate].
    destruct (conv2pos sp cons (S n) xs t1 c) as [[[q t2] c2]|e] eqn:E; cbn [bind] in H; [|discriminate].
    pose proof (conv2pos_tie F (mkGCore t c <| cg_tape := t1 |>) xs) as T. cbn in T.
    rewrite (conv2pos_mono (S n) F _ _ _ _ Hle E) in T.
    destruct (g_core_conv2pos sp cons F (mkGCore t c <| cg_tape := t1 |>) xs) as [[[t2' c2'] q']|e']; cbn [abs_out] in T; [|discriminate].
    cbn [cg_tape cg_ncalls] in T. inversion T; subst. cbn [bind]. unfold cg_not_in_constraint.
    destruct (feasible sp cons q) as [[|]|e]; cbn [bind] in *; try discriminate.
    - inversion H; subst. reflexivity.
    - apply (IH F q (mkGCore t2 (c2 + 1))); [lia|exact H].
  Qed.

  Theorem move_climb_tie_sound fuel self p0 s' p : g_core_move_climb sp cons fuel self p0 = Ok (s', p) ->
    exists fuel', move_climb sp cons fuel' (cg_tape self) (cg_ncalls self) = Ok (p, cg_tape s', cg_ncalls s').
  Proof. rewrite g_move_climb_unfold. intros H. exists (fuel + fuel)%nat. eapply climb_loop_to_model; exact H. Qed.

  Theorem move_climb_tie_complete fuel self p0 p t' c' : move_climb sp cons fuel (cg_tape self) (cg_ncalls self) = Ok (p, t', c') ->
    g_core_move_climb sp cons fuel self p0 = Ok (mkGCore t' c', p).
  Proof. rewrite g_move_climb_unfold. intros H. apply model_to_climb_loop; [lia|exact H]. Qed.

  (* ---------- the properties of CoreFacts.v for the generated moves ---------- *)
  Theorem source_move_random_ok fuel self s' p : g_core_move_random sp cons fuel self = Ok (s', p) ->
    emit_ok sp cons p /\ is_suffix (cg_tape s') (cg_tape self) /\ cg_ncalls self < cg_ncalls s'.
  Proof.
    intros H. pose proof (move_random_tie fuel self) as T. rewrite H in T. cbn [abs_out] in T. symmetry in T.
    exact (move_random_ok sp cons fuel _ _ _ _ _ T).
  Qed.

  Theorem source_conv2pos_ok fuel self xs s' p : dims_ok sp -> length xs = length sp -> Forall (fun x => x <> XNaN) xs ->
    g_core_conv2pos sp cons fuel self xs = Ok (s', p) ->
    in_box sp p /\ is_suffix (cg_tape s') (cg_tape self) /\ cg_ncalls self <= cg_ncalls s'.
  Proof.
    intros Hd Hl Hx H. pose proof (conv2pos_tie fuel self xs) as T. rewrite H in T. cbn [abs_out] in T. symmetry in T.
    exact (conv2pos_ok sp cons Hd fuel _ _ _ _ _ _ Hl Hx T).
  Qed.

  Theorem source_move_climb_ok fuel self p0 s' p : dims_ok sp -> nan_free (cg_tape self) ->
    g_core_move_climb sp cons fuel self p0 = Ok (s', p) ->
    emit_ok sp cons p /\ is_suffix (cg_tape s') (cg_tape self) /\ cg_ncalls self < cg_ncalls s'.
  Proof.
    intros Hd Hn H. destruct (move_climb_tie_sound _ _ _ _ _ H) as [f' T].
    exact (move_climb_ok sp cons Hd f' _ _ _ _ _ Hn T).
  Qed.

  (* no livelock, generated move_random: with rejected candidates first and a feasible one after them on the tape, the loop returns
     that one after exactly one constraint evaluation per candidate *)
  Theorem source_move_random_first_feasible (rejected : list pos) (p : pos) (rest : tape) c :
    Forall (fun q => in_box sp q /\ feasible sp cons q = Ok false) rejected -> in_box sp p -> feasible sp cons p = Ok true ->
    forall fuel, (length rejected < fuel)%nat ->
    g_core_move_random sp cons fuel (mkGCore (flat_map (map DZ) rejected ++ map DZ p ++ rest) c)
      = Ok (mkGCore rest (c + Z.of_nat (length rejected) + 1), p).
  Proof.
    intros Hr Hp Hf fuel Hfuel. pose proof (move_random_tie fuel (mkGCore (flat_map (map DZ) rejected ++ map DZ p ++ rest) c)) as T.
    cbn [cg_tape cg_ncalls] in T. rewrite (move_random_first_feasible sp cons rejected p rest c Hr Hp Hf fuel Hfuel) in T.
    destruct (g_core_move_random sp cons fuel _) as [[[t' c'] q]|e]; cbn [abs_out cg_tape cg_ncalls] in T; [|discriminate].
    inversion T; subst. reflexivity.
  Qed.

  (* generated move_climb exits at the first feasible converted candidate *)
  Theorem source_move_climb_exit f self p0 xs t1 q t2 c2 :
    read_reals (length sp) (cg_tape self) = Ok (xs, t1) -> conv2pos sp cons (S f) xs t1 (cg_ncalls self) = Ok (q, t2, c2) ->
    feasible sp cons q = Ok true -> g_core_move_climb sp cons (S f) self p0 = Ok (mkGCore t2 (c2 + 1), q).
  Proof. intros E Ec F. apply move_climb_tie_complete. exact (move_climb_exit sp cons f _ _ _ _ _ _ _ E Ec F). Qed.

  (* ---------- the random_iteration wrapper ---------- *)
  Variables rrp_m rrp_e : Z.
  Variable body : g_core -> res (g_core * pos).

  Theorem random_iteration_spec fuel self :
    g_core_random_iteration sp cons rrp_m rrp_e body fuel self =
    match cg_tape self with
    | DF um ue :: t' => if dyadic_gt rrp_m rrp_e um ue then g_core_move_random sp cons fuel (self <| cg_tape := t' |>)
                        else body (self <| cg_tape := t' |>)
    | _ => Err OutOfTape
    end.
  Proof.
    unfold g_core_random_iteration, cg_rand_rest. destruct (cg_tape self) as [|[| um ue | | |] t']; try reflexivity. cbn [bind].
    destruct (dyadic_gt rrp_m rrp_e um ue).
    - destruct (g_core_move_random sp cons fuel _) as [[s p]|e]; reflexivity.
    - destruct (body _) as [[s p]|e]; reflexivity.
  Qed.

  Theorem source_random_iteration_ok fuel self s' p :
    (forall s0 s1 p0, nan_free (cg_tape s0) -> body s0 = Ok (s1, p0) ->
       emit_ok sp cons p0 /\ is_suffix (cg_tape s1) (cg_tape s0) /\ cg_ncalls s0 < cg_ncalls s1) ->
    nan_free (cg_tape self) -> g_core_random_iteration sp cons rrp_m rrp_e body fuel self = Ok (s', p) ->
    emit_ok sp cons p /\ is_suffix (cg_tape s') (cg_tape self) /\ cg_ncalls self < cg_ncalls s'.
  Proof.
    intros Hbody Hn. rewrite random_iteration_spec. destruct self as [t c]. cbn [cg_tape cg_ncalls].
    destruct t as [|[| um ue | | |] t0]; try discriminate.
    assert (Hn0 : nan_free t0) by (inversion Hn; assumption).
    destruct (dyadic_gt rrp_m rrp_e um ue); intros H.
    - destruct (source_move_random_ok _ _ _ _ H) as (A & B & C). cbn in B, C. split; [assumption|]. split; [|exact C].
      eapply is_suffix_trans; [exact B|apply is_suffix_cons].
    - destruct (Hbody (mkGCore t0 c) _ _ Hn0 H) as (A & B & C). cbn in B, C. split; [assumption|]. split; [|exact C].
      eapply is_suffix_trans; [exact B|apply is_suffix_cons].
  Qed.
End CoreTie.
