(* AlgoFacts.v — the hill-climbing family and random search (Algos.v) satisfy the optimizer contracts:
   every emitted position is a genuine feasible point (C01, C02), each step's constraint evaluations
   are finite and counted (C08), the tracked pairs are grounded in real evaluations and the best never
   decreases (C19), whatever the draws and whatever (also non-finite) scores come back (C15). *)
Require Import Base Converter ConverterFacts CoreOpt Tracker Algos Driver DriverFacts CoreFacts ListFacts.
From RecordUpdate Require Import RecordSet.
Import RecordSetNotations.

Section AlgoFacts.
  Variable c : algo_cfg.
  Let sp := a_sp c.
  Let cons := a_cons c.
  Hypothesis Hdims : dims_ok sp.

  Definition algo_inv (st : algo_state) : Prop :=
    Forall (emit_ok sp cons) (h_inits st) /\ nan_free (h_tape st).

  Lemma iterate_move_ok st p t' n : nan_free (h_tape st) ->
    iterate_move c st = Ok (p, t', n) -> emit_ok sp cons p /\ is_suffix t' (h_tape st) /\ 0 < n.
  Proof.
    intros Hn H. unfold iterate_move in H.
    assert (Hclimb : forall t0 p0 t0' c0, nan_free t0 -> climb c t0 = Ok (p0, t0', c0) -> emit_ok sp cons p0 /\ is_suffix t0' t0 /\ 0 < c0).
    { intros. unfold climb in *. eapply (move_climb_ok sp cons Hdims); eauto. }
    assert (Hrnd : forall t0 p0 t0' c0, rnd c t0 = Ok (p0, t0', c0) -> emit_ok sp cons p0 /\ is_suffix t0' t0 /\ 0 < c0).
    { intros. unfold rnd in *. eapply (move_random_ok sp cons); eauto. }
    destruct (a_kind c).
    - eapply (random_iteration_ok sp cons); eauto.
    - eapply (random_iteration_ok sp cons); eauto.
    - eapply (random_iteration_ok sp cons); eauto.
    - apply Hclimb; assumption.
    - destruct (a_restart c =? 0); [discriminate|].
      eapply (random_iteration_ok sp cons); [|exact Hn|exact H].
      intros t0 p0 t0' c0 Hn0 Hb. destruct (_ && _); [apply Hrnd|apply Hclimb]; assumption.
    - eapply (random_iteration_ok sp cons); eauto.
    - apply Hrnd. assumption.
    - eapply (random_iteration_ok sp cons); eauto.
  Qed.

  (* C01 + C02 + C08 for one step *)
  Theorem algo_contract : opt_contract (OP := algo_optimizer c) algo_inv (emit_ok sp cons).
  Proof.
    constructor; cbn [algo_optimizer o_init_pos o_iterate o_eval_init o_evaluate o_finish_init ost].
    - (* init_pos *) intros st st' p [Hi Hn] H. unfold algo_init_pos in H.
      destruct (nth_nowrap (h_inits st) (t_nth_init (h_trk st))) as [q|] eqn:E; cbn in H; [|discriminate]. inversion H; subst.
      split; [split; assumption|]. unfold nth_nowrap in E. destruct (_ || _); [discriminate|].
      destruct (nth_error (h_inits st) _) eqn:En; inversion E; subst. rewrite Forall_forall in Hi. apply Hi. eapply nth_error_In; eauto.
    - (* iterate *) intros st st' p [Hi Hn] H. unfold algo_iterate in H.
      destruct (iterate_move c st) as [[[q t'] n]|] eqn:E; cbn in H; [|discriminate]. inversion H; subst.
      destruct (iterate_move_ok _ _ _ _ Hn E) as (A & B & _). split; [|assumption]. split; [assumption|]. cbn.
      eapply nan_free_suffix; eauto.
    - (* evaluate_init *) intros st sc st' [Hi Hn] H. unfold algo_evaluate_init in H.
      destruct (evaluate_init (h_trk st) sc); cbn in H; [|discriminate]. inversion H; subst. split; assumption.
    - (* evaluate *) intros st sc st' [Hi Hn] H. unfold algo_evaluate in H.
      assert (Hhc : forall k0 : trk, (do k' <- hc_evaluate (a_nn c) (h_trk st) sc; Ok (st <| h_trk := k' |>)) = Ok st' -> algo_inv st').
      { intros _ H0. destruct (hc_evaluate (a_nn c) (h_trk st) sc); cbn in H0; [|discriminate]. inversion H0; subst. split; assumption. }
      destruct (a_kind c); try (apply (Hhc (h_trk st)); assumption).
      + destruct (sle sc (t_score_cur (h_trk st))); [|apply (Hhc (h_trk st)); assumption].
        unfold transition_body in H. destruct (h_tape st) as [|d [|[| um ue | | |] t']] eqn:Et; try discriminate.
        destruct (xreal_of_draw d); cbn in H; [|discriminate]. inversion H; subst. split; [assumption|]. cbn.
        inversion Hn as [|? ? _ Hn1]; subst. inversion Hn1; assumption.
      + destruct (sle sc (t_score_cur (h_trk st))); [|apply (Hhc (h_trk st)); assumption].
        unfold transition_body in H. destruct (h_tape st) as [|d [|[| um ue | | |] t']] eqn:Et; try discriminate.
        destruct (xreal_of_draw d); cbn in H; [|discriminate]. inversion H; subst. split; [assumption|]. cbn.
        inversion Hn as [|? ? _ Hn1]; subst. inversion Hn1; assumption.
      + destruct (base_evaluate_tracked (h_trk st) sc); cbn in H; [|discriminate]. inversion H; subst. split; assumption.
      + destruct (spiral_evaluate (h_trk st) sc); cbn in H; [|discriminate]. inversion H; subst. split; assumption.
    - (* finish *) intros st st' Hi H. inversion H; subst. assumption.
  Qed.

  (* the constraint evaluations of an iteration step are counted and at least one *)
  Theorem algo_iterate_counts st st' p : nan_free (h_tape st) -> algo_iterate c st = Ok (st', p) -> 0 < h_ccalls st'.
  Proof.
    intros Hn H. unfold algo_iterate in H. destruct (iterate_move c st) as [[[q t'] n]|] eqn:E; cbn in H; [|discriminate].
    inversion H; subst. cbn. destruct (iterate_move_ok _ _ _ _ Hn E) as (_ & _ & C). exact C.
  Qed.
End AlgoFacts.

(* ================================================================ grounded tracker (C19) *)
Definition pair_in (op : option pos) (s : score) (H : list (pos * score)) : Prop :=
  match op with None => True | Some p => In (p, s) H end.

Record grounded (k : trk) (H : list (pos * score)) : Prop := {
  g_cur  : pair_in (t_pos_cur k) (t_score_cur k) H;
  g_best : pair_in (t_pos_best k) (t_score_best k) H;
  g_valid : Forall (fun ps => pair_in (fst ps) (snd ps) H) (t_valid k)
}.

Lemma pair_in_mono op s H x : pair_in op s H -> pair_in op s (H ++ x).
Proof. destruct op; cbn; [intros; apply in_or_app; left; assumption|auto]. Qed.

Lemma grounded_mono k H x : grounded k H -> grounded k (H ++ x).
Proof.
  intros [A B C]. constructor; try (apply pair_in_mono; assumption).
  eapply Forall_impl; [|exact C]. intros ps. apply pair_in_mono.
Qed.

Lemma grounded_set_score k H p s : t_pos_new k = Some p -> grounded k H ->
  grounded (set_score_new k s) (H ++ [(p, s)]) /\ t_pos_new (set_score_new k s) = Some p /\ t_score_new (set_score_new k s) = s.
Proof.
  intros Hp G. apply (grounded_mono _ _ [(p, s)]) in G. destruct G as [A B C]. unfold set_score_new.
  destruct (is_finite s); cbn; (split; [|split; [assumption|reflexivity]]); constructor; cbn; auto.
  apply Forall_app. split; [assumption|]. constructor; [|constructor]. cbn. rewrite Hp. cbn. apply in_or_app. right. left. reflexivity.
Qed.

Lemma grounded_eval2 k H p s : pair_in p s H -> grounded k H -> grounded (eval2best (eval2current k p s) p s) H.
Proof.
  intros Hp [A B C]. unfold eval2best, eval2current.
  destruct (sgt s (t_score_cur k)); cbn; destruct (sgt s _); cbn; constructor; cbn; auto.
Qed.

Lemma grounded_base k H p s : t_pos_new k = Some p -> In (p, s) H -> grounded k H -> grounded (base_evaluate k s) H.
Proof.
  intros Hp Hin [A B C]. unfold base_evaluate. destruct (t_pos_best k) eqn:Eb.
  - constructor; [exact A| rewrite Eb; exact B | exact C].
  - constructor; cbn; try rewrite Hp; cbn; auto.
Qed.

Lemma last_n_incl {A} n (l : list A) x : In x (last_n n l) -> In x l.
Proof.
  unfold last_n. generalize (length l - n)%nat. intros m. revert l. induction m as [|m IH]; intros [|y l] H; cbn in *; auto.
Qed.

Lemma hc_body_grounded n k H p s k' : t_pos_new k = Some p -> In (p, s) H -> grounded k H ->
  hc_evaluate_body n k s = Ok k' -> grounded k' H.
Proof.
  intros Hp Hin G Hb. unfold hc_evaluate_body in Hb.
  pose proof (grounded_base k H p s Hp Hin G) as G1. set (k1 := base_evaluate k s) in *.
  destruct (t_valid k1) eqn:Ev; [inversion Hb; subst; assumption|].
  destruct (n =? 0); [discriminate|]. destruct (t_nth_trial k1 mod n =? 0); [|inversion Hb; subst; assumption].
  destruct (argmax_last _) as [idx|]; cbn [bind] in Hb; [|discriminate].
  destruct (nth_error _ idx) as [[q sc]|] eqn:En; [|discriminate]. inversion Hb; subst.
  apply grounded_eval2; [|assumption].
  apply nth_error_In in En. apply last_n_incl in En. rewrite <- Ev in En.
  destruct G1 as [_ _ C]. rewrite Forall_forall in C. apply (C (q, sc) En).
Qed.

Lemma track_grounded body k H p s k' :
  (forall k0 k1, t_pos_new k0 = Some p -> t_score_new k0 = s -> In (p, s) (H ++ [(p, s)]) -> grounded k0 (H ++ [(p, s)]) -> body k0 s = Ok k1 -> grounded k1 (H ++ [(p, s)])) ->
  t_pos_new k = Some p -> grounded k H -> track_new_score body k s = Ok k' -> grounded k' (H ++ [(p, s)]).
Proof.
  intros Hb Hp G Ht. unfold track_new_score in Ht.
  destruct (grounded_set_score k H p s Hp G) as (G1 & P1 & S1).
  destruct (body (set_score_new k s) s) as [k1|] eqn:E; cbn in Ht; [|discriminate]. inversion Ht; subst.
  assert (G2 : grounded k1 (H ++ [(p, s)])) by (eapply Hb; eauto; apply in_or_app; right; left; reflexivity).
  destruct G2. constructor; assumption.
Qed.

Section Grounded.
  Variable c : algo_cfg.

  Definition algo_grounded (st : algo_state) (H : list (pos * score)) : Prop := grounded (h_trk st) H.

  Theorem algo_hist_contract : opt_hist_contract (OP := algo_optimizer c) algo_grounded.
  Proof.
    constructor; cbn [algo_optimizer o_init_pos o_iterate o_eval_init o_evaluate o_finish_init ost].
    - (* init step *)
      intros st st1 p sc st2 H G Hi He. unfold algo_init_pos in Hi.
      destruct (nth_nowrap _ _) as [q|]; cbn [bind] in Hi; [|discriminate].
      assert (Ht1 : h_trk st1 = track_new_pos (h_trk st) p) by (inversion Hi; reflexivity). clear Hi.
      unfold algo_evaluate_init in He. rewrite Ht1 in He.
      destruct (evaluate_init (track_new_pos (h_trk st) p) sc) as [k'|] eqn:E; cbn [bind] in He; [|discriminate].
      assert (Ht2 : h_trk st2 = k') by (inversion He; reflexivity). unfold algo_grounded. rewrite Ht2.
      unfold evaluate_init in E. eapply (track_grounded evaluate_init_body (track_new_pos (h_trk st) p) H p sc k'); [|reflexivity| |exact E].
      + intros k0 k1 Hp _ Hin G0 Hb. unfold evaluate_init_body in Hb. inversion Hb; subst. clear Hb. destruct G0 as [A B C].
        destruct (t_pos_best k0) eqn:Eb; destruct (t_pos_cur _) eqn:Ec; cbn in *; constructor; cbn; auto;
          try rewrite Hp; cbn; auto; try (rewrite Ec in *; auto); try (rewrite Eb in *; auto).
      + destruct G as [A B C]. constructor; assumption.
    - (* iteration step *)
      intros st st1 p sc st2 H G Hi He. unfold algo_iterate in Hi.
      destruct (iterate_move c st) as [[[q t'] n]|]; cbn [bind] in Hi; [|discriminate].
      assert (Ht1 : h_trk st1 = track_new_pos (h_trk st) p) by (inversion Hi; reflexivity).
      assert (Htape : exists tp, h_tape st1 = tp) by eauto. destruct Htape as [tp Htp]. clear Hi.
      unfold algo_grounded in *. unfold algo_evaluate in He. rewrite Ht1, Htp in He.
      set (k := track_new_pos (h_trk st) p) in *.
      assert (Hp : t_pos_new k = Some p) by reflexivity.
      assert (Gk : grounded k H) by (destruct G as [A B C]; constructor; assumption).
      assert (Hhc : forall k', hc_evaluate (a_nn c) k sc = Ok k' -> grounded k' (H ++ [(p, sc)])).
      { intros k' E. unfold hc_evaluate in E. eapply (track_grounded (hc_evaluate_body (a_nn c))); [|exact Hp|exact Gk|exact E].
        intros k0 k1 Hp0 _ Hin G0 Hb. eapply hc_body_grounded; eauto. }
      assert (Htr : forall kt, transition_body tp (set_score_new k sc) sc = Ok kt ->
                grounded ((fst kt) <| t_nth_trial ::= Z.succ |>) (H ++ [(p, sc)])).
      { intros kt E. destruct (grounded_set_score k H p sc Hp Gk) as (G1 & P1 & S1).
        unfold transition_body in E. destruct tp as [|d [|[| um ue | | |] t0]]; try discriminate.
        destruct (xreal_of_draw d); cbn [bind] in E; [|discriminate]. inversion E; subst. cbn [fst].
        destruct (accept _ _ _).
        - destruct G1 as [A B C]. constructor; cbn; auto. rewrite P1, S1. cbn. apply in_or_app. right. left. reflexivity.
        - destruct G1 as [A B C]. constructor; assumption. }
      destruct (a_kind c).
      + destruct (hc_evaluate (a_nn c) k sc) as [t|] eqn:E; cbn [bind] in He; [|discriminate]. replace (h_trk st2) with t by (inversion He; reflexivity). apply Hhc. reflexivity.
      + destruct (sle sc (t_score_cur k)).
        * destruct (transition_body tp (set_score_new k sc) sc) as [kt|] eqn:E; cbn [bind] in He; [|discriminate].
          replace (h_trk st2) with ((fst kt) <| t_nth_trial ::= Z.succ |>) by (inversion He; reflexivity). apply Htr. reflexivity.
        * destruct (hc_evaluate (a_nn c) k sc) as [t|] eqn:E; cbn [bind] in He; [|discriminate]. replace (h_trk st2) with t by (inversion He; reflexivity). apply Hhc. reflexivity.
      + destruct (sle sc (t_score_cur k)).
        * destruct (transition_body tp (set_score_new k sc) sc) as [kt|] eqn:E; cbn [bind] in He; [|discriminate].
          replace (h_trk st2) with ((fst kt) <| t_nth_trial ::= Z.succ |>) by (inversion He; reflexivity). apply Htr. reflexivity.
        * destruct (hc_evaluate (a_nn c) k sc) as [t|] eqn:E; cbn [bind] in He; [|discriminate]. replace (h_trk st2) with t by (inversion He; reflexivity). apply Hhc. reflexivity.
      + destruct (hc_evaluate (a_nn c) k sc) as [t|] eqn:E; cbn [bind] in He; [|discriminate]. replace (h_trk st2) with t by (inversion He; reflexivity). apply Hhc. reflexivity.
      + destruct (hc_evaluate (a_nn c) k sc) as [t|] eqn:E; cbn [bind] in He; [|discriminate]. replace (h_trk st2) with t by (inversion He; reflexivity). apply Hhc. reflexivity.
      + destruct (hc_evaluate (a_nn c) k sc) as [t|] eqn:E; cbn [bind] in He; [|discriminate]. replace (h_trk st2) with t by (inversion He; reflexivity). apply Hhc. reflexivity.
      + destruct (base_evaluate_tracked k sc) as [k'|] eqn:E; cbn [bind] in He; [|discriminate]. replace (h_trk st2) with k' by (inversion He; reflexivity).
        unfold base_evaluate_tracked in E. eapply (track_grounded (fun t s => Ok (base_evaluate t s))); [|exact Hp|exact Gk|exact E].
        intros k0 k1 Hp0 _ Hin G0 Hb. inversion Hb; subst. eapply grounded_base; eauto.
      + destruct (spiral_evaluate k sc) as [k'|] eqn:E; cbn [bind] in He; [|discriminate]. replace (h_trk st2) with k' by (inversion He; reflexivity).
        unfold spiral_evaluate in E. eapply (track_grounded (fun t s => Ok (evaluate_current2best (new2current t)))); [|exact Hp|exact Gk|exact E].
        intros k0 k1 Hp0 Hs0 Hin G0 Hb. inversion Hb; subst k1. clear Hb. destruct G0 as [A B C].
        unfold evaluate_current2best, new2current. cbn.
        destruct (sgt (t_score_new k0) (t_score_best k0)); constructor; cbn; auto; rewrite Hp0, Hs0; cbn; assumption.
    - intros st st' H G Hf. inversion Hf; subst. assumption.
  Qed.
End Grounded.

(* ================================================================ monotonicity (C19) and NaN (C15) *)
Lemma eval2best_monotone k p s : sgt (t_score_best k) (t_score_best (eval2best k p s)) = false.
Proof.
  unfold eval2best. destruct (sgt s (t_score_best k)) eqn:G; cbn.
  - destruct (t_score_best k), s; cbn in *; try congruence; try reflexivity. apply Z.ltb_lt in G. apply Z.ltb_ge. lia.
  - destruct (t_score_best k); cbn; try reflexivity. apply Z.ltb_irrefl.
Qed.
Lemma eval2current_monotone k p s : sgt (t_score_cur k) (t_score_cur (eval2current k p s)) = false.
Proof.
  unfold eval2current. destruct (sgt s (t_score_cur k)) eqn:G; cbn.
  - destruct (t_score_cur k), s; cbn in *; try congruence; try reflexivity. apply Z.ltb_lt in G. apply Z.ltb_ge. lia.
  - destruct (t_score_cur k); cbn; try reflexivity. apply Z.ltb_irrefl.
Qed.

(* a NaN score never replaces an existing current / best pair in the greedy update *)
Lemma nan_never_adopted k p : eval2best (eval2current k p SNaN) p SNaN = k.
Proof. unfold eval2best, eval2current. cbn. destruct k; reflexivity. Qed.

(* only finite scores enter the valid lists *)
Lemma valid_only_finite k s : t_valid (set_score_new k s) = if is_finite s then t_valid k ++ [(t_pos_new k, s)] else t_valid k.
Proof. unfold set_score_new. destruct (is_finite s); reflexivity. Qed.
