(* C03 — search(n_iter=N) performs exactly N steps; step accounting is exact. *)
Require Import Base StopRun Converter Driver DriverFacts StopFacts.
From RecordUpdate Require Import RecordSet.
Import RecordSetNotations.

Section C03.
  Context {OP : optimizer}.
  Variable sp : space.
  Variable f : nat -> values -> result.
  Variable clk : nat -> Z.

  (* what one search() call does to the accounting, for any stopping configuration *)
  Record call_accounting (s : drv OP) (c : call) (s' : drv OP) (k : Z) : Prop := {
    ca_range   : 0 <= k <= c_n_iter c;
    ca_nostop  : c_stop c = no_stop -> k = c_n_iter c;
    ca_rows    : zlen (d_rows s') = zlen (d_rows s) + k;
    ca_pos     : zlen (d_pos_l s') = zlen (d_pos_l s) + k;
    ca_scores  : zlen (d_score_l s') = zlen (d_score_l s) + k;
    ca_evalt   : zlen (d_eval_times s') = zlen (d_eval_times s) + k;
    ca_itert   : zlen (d_iter_times s') = zlen (d_iter_times s) + k;
    (* initial positions first: the first min(remaining inits, N, k) steps are initialisation steps *)
    ca_inits   : d_n_init_total s' = d_n_init_total s +
                   Z.min k (Z.max 0 (Z.min (o_n_inits OP (d_opt s) - d_n_init_total s) (c_n_iter c)));
    ca_iters   : d_n_iter_total s' - d_n_iter_total s = k - (d_n_init_total s' - d_n_init_total s);
    ca_search  : d_n_init_search s' = d_n_init_total s' - d_n_init_total s /\
                 d_n_iter_search s' = d_n_iter_total s' - d_n_iter_total s;
    (* the old entries are untouched and the new times are differences of clock readings *)
    ca_times   : exists ne ni, d_eval_times s' = d_eval_times s ++ ne /\ d_iter_times s' = d_iter_times s ++ ni /\
                   ((forall a b, (a <= b)%nat -> clk a <= clk b) -> Forall2 (fun e i => 0 <= e <= i) ne ni)
  }.

  Definition C03_call_statement : Prop :=
    forall (s s' : drv OP) (c : call), 0 <= c_n_iter c ->
      search sp f clk s c = Ok s' -> exists k, call_accounting s c s' k.

  Lemma stop_after_no_stop (s0 : drv OP) tr : c_stop (d_call s0) = no_stop -> stop_after clk s0 tr = Ok false.
  Proof. intros H. unfold stop_after, check. rewrite H. reflexivity. Qed.

  Lemma zlen_app_gen {A} (a b : list A) : zlen (a ++ b) = zlen a + zlen b.
  Proof. unfold zlen. rewrite app_length. lia. Qed.
  Lemma zlen_map {A B} (g : A -> B) l : zlen (map g l) = zlen l.
  Proof. unfold zlen. rewrite map_length. reflexivity. Qed.

  Theorem C03_call_holds : C03_call_statement.
  Proof.
    intros s s' c Hni Hs.
    destruct (search_spec sp f clk s c s' Hni Hs) as (s0 & tr & sE & b & Hi & He & Hf).
    destruct (init_search_cinv _ _ _ _ _ Hi) as [Ci Hcall].
    destruct (init_search_spec _ _ _ _ _ Hi) as (mem & _ & Hs0).
    assert (H1 : d_rows s0 = d_rows s /\ d_pos_l s0 = d_pos_l s /\ d_score_l s0 = d_score_l s /\
                 d_eval_times s0 = d_eval_times s /\ d_iter_times s0 = d_iter_times s /\
                 d_n_init_total s0 = d_n_init_total s /\ d_n_iter_total s0 = d_n_iter_total s /\
                 d_n_init_search s0 = 0 /\ d_n_iter_search s0 = 0 /\
                 d_n_inits_norm s0 = Z.min (o_n_inits OP (d_opt s) - d_n_init_total s) (c_n_iter c))
      by (rewrite Hs0; cbn; repeat split; reflexivity).
    destruct H1 as (R0 & P0 & S0 & E0 & I0 & NI0 & NT0 & SI0 & ST0 & NM0). clear Hs0.
    destruct (ended_traced _ _ _ _ _ _ _ _ He) as (T & Hle & Hfull).
    destruct (ended_counters sp f clk s0 _ tr sE b Ci (eq_sym (f_equal c_n_iter Hcall)) He) as [Cn1 Cn2].
    destruct (finish_search_spec _ _ _ Hf) as (bv & _ & Hs').
    assert (F : d_rows s' = d_rows sE /\ d_pos_l s' = d_pos_l sE /\ d_score_l s' = d_score_l sE /\
                d_eval_times s' = d_eval_times sE /\ d_iter_times s' = d_iter_times sE /\
                d_n_init_total s' = d_n_init_total sE /\ d_n_iter_total s' = d_n_iter_total sE /\
                d_n_init_search s' = d_n_init_search sE /\ d_n_iter_search s' = d_n_iter_search sE)
      by (rewrite Hs'; cbn; repeat split; reflexivity).
    destruct F as (F1 & F2 & F3 & F4 & F5 & F6 & F7 & F8 & F9). clear Hs'.
    pose proof (zlen_nonneg tr) as Hk0.
    pose proof (t_tinit _ _ _ _ _ T) as Ti. pose proof (t_titer _ _ _ _ _ T) as Tt.
    exists (zlen tr). constructor.
    - lia.
    - intros Hno. destruct b; [|apply Hfull; reflexivity]. exfalso.
      destruct (ended_stops _ _ _ _ _ _ _ _ He) as [_ Ht]. destruct (Ht eq_refl) as (Hl & _).
      rewrite stop_after_no_stop in Hl by (rewrite Hcall; exact Hno). discriminate.
    - rewrite F1, (t_rows _ _ _ _ _ T), zlen_app_gen, zlen_map, R0. reflexivity.
    - rewrite F2, (t_pos _ _ _ _ _ T), zlen_app_gen, zlen_map, P0. reflexivity.
    - rewrite F3, (t_score _ _ _ _ _ T), zlen_app_gen, zlen_map, S0. reflexivity.
    - rewrite F4, (t_evalt _ _ _ _ _ T), zlen_app_gen, zlen_map, E0. unfold zlen. rewrite seq_length. reflexivity.
    - rewrite F5, (t_itert _ _ _ _ _ T), zlen_app_gen, zlen_map, I0. unfold zlen. rewrite seq_length. reflexivity.
    - rewrite F6. rewrite NM0 in Cn1. lia.
    - rewrite F6, F7. lia.
    - rewrite F6, F7, F8, F9. lia.
    - eexists _, _. rewrite F4, F5, (t_evalt _ _ _ _ _ T), (t_itert _ _ _ _ _ T), E0, I0.
      split; [reflexivity|]. split; [reflexivity|]. intros Hmono.
      generalize (seq 0 (length tr)). intros l. induction l as [|i l IH]; cbn [map]; constructor; [|assumption].
      pose proof (Hmono (cidx s0 i) (1 + cidx s0 i)%nat ltac:(lia)).
      pose proof (Hmono (1 + cidx s0 i)%nat (2 + cidx s0 i)%nat ltac:(lia)).
      pose proof (Hmono (2 + cidx s0 i)%nat (3 + cidx s0 i)%nat ltac:(lia)). lia.
  Qed.

  (* ---------- sequences of calls ---------- *)
  Fixpoint total_n (cs : list call) : Z := match cs with [] => 0 | c :: tl => c_n_iter c + total_n tl end.

  Definition C03_history_statement : Prop :=
    forall (n_inits : Z),
      opt_contract (fun st => o_n_inits OP st = n_inits) (fun _ => True) ->
      forall (cs : list call) (s s' : drv OP),
        Forall (fun c => 0 <= c_n_iter c /\ c_stop c = no_stop) cs ->
        o_n_inits OP (d_opt s) = n_inits -> 0 <= d_n_init_total s <= n_inits ->
        searches sp f clk s cs = Ok s' ->
        zlen (d_rows s') = zlen (d_rows s) + total_n cs /\
        zlen (d_eval_times s') = zlen (d_eval_times s) + total_n cs /\
        zlen (d_iter_times s') = zlen (d_iter_times s) + total_n cs /\
        d_n_init_total s' = Z.min n_inits (d_n_init_total s + total_n cs) /\
        d_n_init_total s' + d_n_iter_total s' = d_n_init_total s + d_n_iter_total s + total_n cs.

  Lemma search_keeps_contract I Q (s s' : drv OP) c :
    opt_contract I Q -> 0 <= c_n_iter c -> I (d_opt s) -> search sp f clk s c = Ok s' -> I (d_opt s').
  Proof.
    intros C Hni Hi Hs.
    destruct (search_spec sp f clk s c s' Hni Hs) as (s0 & tr & sE & b & Hi0 & He & Hf).
    destruct (init_search_spec _ _ _ _ _ Hi0) as (mem & _ & Hs0).
    destruct (finish_search_spec _ _ _ Hf) as (bv & _ & Hs').
    assert (Hi1 : I (d_opt s0)) by (rewrite Hs0; exact Hi).
    rewrite Hs'. cbn. exact (proj1 (ended_contract sp f clk I Q _ _ _ _ _ C Hi1 He)).
  Qed.

  Lemma total_n_nonneg cs : Forall (fun c => 0 <= c_n_iter c /\ c_stop c = no_stop) cs -> 0 <= total_n cs.
  Proof. induction 1 as [|c cs [H _] _ IH]; cbn; lia. Qed.

  Theorem C03_history_holds : C03_history_statement.
  Proof.
    intros n_inits C cs. induction cs as [|c cs IH]; intros s s' Hall Hn Hr Hs; cbn in Hs.
    - inv_ok Hs. cbn. repeat split; lia.
    - step_bind Hs. apply Forall_cons_iff in Hall. destruct Hall as [[Hc1 Hc2] Hall'].
      destruct (C03_call_holds s x c Hc1 E) as (k & A).
      pose proof (ca_nostop _ _ _ _ A Hc2) as Hk. subst k.
      pose proof (search_keeps_contract _ _ s x c C Hc1 Hn E) as Hn'.
      pose proof (ca_inits _ _ _ _ A) as Hi. rewrite Hn in Hi.
      assert (Hr' : 0 <= d_n_init_total x <= n_inits) by lia.
      destruct (IH x s' Hall' Hn' Hr' Hs) as (B1 & B2 & B3 & B4 & B5).
      pose proof (ca_iters _ _ _ _ A). cbn [total_n].
      pose proof (total_n_nonneg cs Hall').
      pose proof (ca_rows _ _ _ _ A). pose proof (ca_evalt _ _ _ _ A). pose proof (ca_itert _ _ _ _ A).
      repeat split; lia.
  Qed.
End C03.
