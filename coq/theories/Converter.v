(* Converter.v — converter.py.  A search space is the list of its dimensions' value arrays
   (integers at the harness's common scale); parameter names are integers (ids). *)
Require Import Base.

Definition space := list (list Z).
Definition values := list Z.
Definition para := list (Z * Z).              (* python dict name -> value, insertion ordered *)

Definition dim_sizes (sp : space) : list Z := map (fun d => zlen d) sp.
Definition max_positions (sp : space) : list Z := map (fun d => zlen d - 1) sp.
Definition space_size (sp : space) : Z := fold_left Z.mul (dim_sizes sp) 1.

(* ---------- python dict as an insertion-ordered association list ---------- *)
Section Dict.
  Context {K V : Type} (keqb : K -> K -> bool).
  Fixpoint dict_get (k : K) (d : list (K * V)) : option V :=
    match d with [] => None | (k', v) :: tl => if keqb k k' then Some v else dict_get k tl end.
  Fixpoint dict_set (k : K) (v : V) (d : list (K * V)) : list (K * V) :=
    match d with
    | [] => [(k, v)]
    | (k', v') :: tl => if keqb k k' then (k', v) :: tl else (k', v') :: dict_set k v tl
    end.
  Definition dict_mem (k : K) (d : list (K * V)) : bool :=
    match dict_get k d with Some _ => true | None => false end.
  Definition dict_of_pairs (l : list (K * V)) : list (K * V) :=
    fold_left (fun d kv => dict_set (fst kv) (snd kv) d) l [].
  Definition dict_update (d upd : list (K * V)) : list (K * V) :=
    fold_left (fun d kv => dict_set (fst kv) (snd kv) d) upd d.
End Dict.

(* ---------- position2value: space_dim[position[n]] with numpy indexing (negative wraps!) ---------- *)
Fixpoint position2value_aux (sp : space) (p : pos) (n : Z) : res values :=
  match sp with
  | [] => Ok []
  | dim :: tl =>
      do i <- nth_nowrap p n;
      do v <- nth_py dim i;
      do vs <- position2value_aux tl p (n + 1);
      Ok (v :: vs)
  end.
Definition position2value (sp : space) (p : pos) : res values := position2value_aux sp p 0.

(* ---------- value2position: np.abs(value[n] - dim).argmin() — first index of the minimum ---------- *)
Fixpoint argmin_first_aux (best : Z) (besti : nat) (i : nat) (l : list Z) : nat :=
  match l with
  | [] => besti
  | y :: tl => if y <? best then argmin_first_aux y i (S i) tl else argmin_first_aux best besti (S i) tl
  end.
Definition argmin_first (l : list Z) : res nat :=
  match l with [] => Err ValueError | x :: tl => Ok (argmin_first_aux x 0%nat 1%nat tl) end.

Definition nearest_index (dim : list Z) (v : Z) : res Z :=
  do i <- argmin_first (map (fun a => Z.abs (v - a)) dim); Ok (Z.of_nat i).

Fixpoint value2position_aux (sp : space) (v : values) (n : Z) : res pos :=
  match sp with
  | [] => Ok []
  | dim :: tl =>
      do x <- nth_nowrap v n;
      do i <- nearest_index dim x;
      do ps <- value2position_aux tl v (n + 1);
      Ok (i :: ps)
  end.
Definition value2position (sp : space) (v : values) : res pos := value2position_aux sp v 0.

(* ---------- value2para / para2value ---------- *)
Fixpoint zip {A B} (a : list A) (b : list B) : list (A * B) :=
  match a, b with x :: a', y :: b' => (x, y) :: zip a' b' | _, _ => [] end.
Definition value2para (names : list Z) (v : values) : para := dict_of_pairs Z.eqb (zip names v).
Definition para2value (names : list Z) (p : para) : res values :=
  map_res (fun nm => match dict_get Z.eqb nm p with Some x => Ok x | None => Err KeyError end) names.

(* ---------- batched conversions ---------- *)
(* column n of a rectangular 2-D array; a short row is numpy's IndexError *)
Definition column {A} (rows : list (list A)) (n : Z) : res (list A) :=
  map_res (fun r => nth_nowrap r n) rows.

(* transpose a list of equally long columns into rows ([list(t) for t in zip( *cols)]) *)
Fixpoint transpose_cols {A} (n_rows : nat) (cols : list (list A)) : list (list A) :=
  match n_rows with
  | O => []
  | S k => match map_res (fun c => match c with x :: _ => Ok x | [] => Err IndexError end) cols with
           | Ok heads => heads :: transpose_cols k (map (@tl A) cols)
           | Err _ => []
           end
  end.

Fixpoint values2positions_cols (sp : space) (vals : list values) (n : Z) : res (list (list Z)) :=
  match sp with
  | [] => Ok []
  | dim :: tl =>
      do col <- column vals n;
      do pcol <- map_res (nearest_index dim) col;
      do rest <- values2positions_cols tl vals (n + 1);
      Ok (pcol :: rest)
  end.
(* after the C20 fix: per dimension the nearest-value argmin (was: searchsorted on the raw array) *)
Definition values2positions (sp : space) (vals : list values) : res (list pos) :=
  match vals with
  | [] => Err IndexError                 (* np.array([])[:, n] : too many indices *)
  | _ => do cols <- values2positions_cols sp vals 0; Ok (transpose_cols (length vals) cols)
  end.

Fixpoint positions2values_cols (sp : space) (ps : list pos) (n : Z) : res (list (list Z)) :=
  match sp with
  | [] => Ok []
  | dim :: tl =>
      do col <- column ps n;
      do vcol <- map_res (nth_py dim) col;              (* np.take: negative indices wrap *)
      do rest <- positions2values_cols tl ps (n + 1);
      Ok (vcol :: rest)
  end.
Definition positions2values (sp : space) (ps : list pos) : res (list values) :=
  match ps with
  | [] => Err IndexError                 (* np.array([])[:, n] : too many indices *)
  | _ => do cols <- positions2values_cols sp ps 0; Ok (transpose_cols (length ps) cols)
  end.

(* ---------- memory dictionaries ---------- *)
Section MemDict.
  Context {V : Type}.
  Definition memdict := list (pos * V).
  Definition positions_scores2memory_dict (ps : list pos) (scores : list V) : memdict :=
    dict_of_pairs pos_eqb (zip ps scores).
  Definition memory_dict2positions_scores (d : memdict) : list pos * list V :=
    (map fst d, map snd d).
End MemDict.

(* a dataframe: named columns of values plus the "score" column, row-wise *)
Record frame {V : Type} := mkFrame { fr_cols : list Z; fr_rows : list (list Z * V) }.
Arguments frame V : clear implicits.
Arguments mkFrame {V}.

Definition subsetb (a b : list Z) : bool := forallb (fun x => existsb (Z.eqb x) b) a.

(* dataframe[para_names].values : pick the named columns in para_names order *)
Definition select_cols (cols names : list Z) (row : list Z) : res values :=
  para2value names (dict_of_pairs Z.eqb (zip cols row)).

Definition dataframe2memory_dict {V} (sp : space) (names : list Z) (fr : frame V) : res (@memdict V) :=
  if subsetb names (fr_cols fr) then
    do vals <- map_res (fun r => select_cols (fr_cols fr) names (fst r)) (fr_rows fr);
    do ps <- values2positions sp vals;
    Ok (positions_scores2memory_dict ps (map snd (fr_rows fr)))
  else Ok [].

Definition memory_dict2dataframe {V} (sp : space) (names : list Z) (d : @memdict V) : res (frame V) :=
  let '(ps, sc) := memory_dict2positions_scores d in
  do vals <- positions2values sp ps;
  Ok (mkFrame names (zip vals sc)).

(* ---------- constraints: not_in_constraint decodes the position and asks every constraint ---------- *)
Definition not_in_constraint (sp : space) (constraint : values -> bool) (p : pos) : res bool :=
  do v <- position2value sp p; Ok (constraint v).
