(* Smbo.v — smb_opt/smbo.py: the surrogate's training set (X_sample / Y_sample), candidate bookkeeping
   (all_pos_comb, _remove_position), the proposal rule.  Model fitting and the acquisition function
   (sklearn / scipy numerics) are oracles: the acquisition vector over the candidate list is an input. *)
Require Import Base Converter CoreOpt.

Record smbo := mkSmbo {
  sm_X : list pos;                 (* X_sample *)
  sm_Y : list score;               (* Y_sample (finite scores) *)
  sm_comb : list pos;              (* all_pos_comb: the feasible candidates still available *)
  sm_replacement : bool
}.

(* track_X_sample: every proposed position (init_pos and iterate) is appended *)
Definition track_x (s : smbo) (p : pos) : smbo := mkSmbo (sm_X s ++ [p]) (sm_Y s) (sm_comb s) (sm_replacement s).

(* track_y_sample: a non-finite score drops the last X, a finite one is appended to Y *)
Definition track_y (s : smbo) (sc : score) : smbo :=
  if is_finite sc then mkSmbo (sm_X s) (sm_Y s ++ [sc]) (sm_comb s) (sm_replacement s)
  else mkSmbo (removelast (sm_X s)) (sm_Y s) (sm_comb s) (sm_replacement s).

(* _remove_position: all candidate rows equal to the position are removed *)
Definition remove_position (comb : list pos) (p : pos) : list pos := filter (fun q => negb (pos_eqb q p)) comb.

(* evaluate / evaluate_init bookkeeping (the tracker part is Tracker.v) *)
Definition smbo_evaluate_init (s : smbo) (sc : score) : smbo := track_y s sc.
Definition smbo_evaluate (s : smbo) (p_new : pos) (sc : score) : smbo :=
  let s1 := if sm_replacement s then s else mkSmbo (sm_X s) (sm_Y s) (remove_position (sm_comb s) p_new) (sm_replacement s) in
  track_y s1 sc.

(* acquisition values: exact dyadics or non-finite doubles *)
Definition xr_gt (a b : xreal) : bool :=
  match a, b with
  | XNaN, _ | _, XNaN => false
  | XPInf, XPInf => false | XPInf, _ => true | _, XPInf => false
  | XNInf, _ => false | XF _ _, XNInf => true
  | XF am ae, XF bm be => dyadic_gt am ae bm be
  end.
Definition xr_is_nan (a : xreal) : bool := match a with XNaN => true | _ => false end.

(* the proposal rule `pos_comb[acq.argsort()[::-1]][0]`: numpy's argsort is not stable, so the chosen index is
   an oracle; what the rule guarantees (NaN-free acquisition) is that no candidate has a strictly larger value *)
Definition proposal_ok (comb : list pos) (acq : list xreal) (i : nat) (p : pos) : bool :=
  match nth_error comb i, nth_error acq i with
  | Some q, Some a => pos_eqb q p && (length comb =? length acq)%nat && forallb (fun b => negb (xr_gt b a)) acq
  | _, _ => false
  end.

(* filtering of warm_start_smbo rows: finite score, every value a member of its dimension *)
Definition member_row (sp : space) (v : values) : bool :=
  (length v =? length sp)%nat && forallb (fun dv => existsb (Z.eqb (snd dv)) (fst dv)) (zip sp v).
Definition warm_rows (sp : space) (rows : list (values * score)) : list (values * score) :=
  filter (fun r => is_finite (snd r) && member_row sp (fst r)) rows.
Definition init_warm_start_smbo (sp : space) (rows : list (values * score)) : res (list pos * list score) :=
  match warm_rows sp rows with
  | [] => Ok ([], [])                               (* values2positions([]) is never reached with no rows: numpy returns [] *)
  | wr => do ps <- values2positions sp (map fst wr); Ok (ps, map snd wr)
  end.

(* ---------- TreeStructuredParzenEstimators._get_samples: the split of the training set into the best n_best and the other points ----------
   index_best = Y.argsort()[-n_best:], index_worst = Y.argsort()[:n - n_best]; numpy's argsort is an oracle permutation `perm`
   (checked: a permutation of range(n) along which Y is non-decreasing); the two kernel densities are fitted on X[index_best] and
   X[index_worst] *)
Definition tpe_split (perm : list nat) (n_best : nat) : list nat * list nat :=
  (last_n n_best perm, firstn (length perm - n_best) perm).      (* (index_best, index_worst) *)

Fixpoint nat_mem (x : nat) (l : list nat) : bool := match l with [] => false | y :: tl => Nat.eqb x y || nat_mem x tl end.
Fixpoint nodup_b (l : list nat) : bool := match l with [] => true | x :: tl => negb (nat_mem x tl) && nodup_b tl end.
Definition is_perm_of_range (perm : list nat) (n : nat) : bool :=
  Nat.eqb (length perm) n && nodup_b perm && forallb (fun i => Nat.ltb i n) perm.

(* what the correspondence unit checks of an observed (index_best, index_worst): together (worst first) they are an argsort of Y *)
Fixpoint sorted_along (ys : list score) (idx : list nat) : bool :=
  match idx with
  | i :: ((j :: _) as tl) => match nth_error ys i, nth_error ys j with
                             | Some a, Some b => sle a b && sorted_along ys tl
                             | _, _ => false
                             end
  | _ => true
  end.
Definition tpe_split_ok (ys : list score) (n_best : nat) (best worst : list nat) : bool :=
  is_perm_of_range (worst ++ best) (length ys) && Nat.eqb (length best) n_best && sorted_along ys (worst ++ best).
