(* Grid.v — grid/diagonal_grid_search.py, grid/orthogonal_grid_search.py, grid/grid_search.py
   (iteration phase, no constraints).  Positions are decoded from a pointer in Z/|S|. *)
Require Import Base Converter.
From Coq Require Import Znumtheory.

Definition zprod (l : list Z) : Z := fold_right Z.mul 1 l.

(* ---------- diagonal: grid_move decodes the pointer big-endian (first dimension most significant) ---------- *)
Fixpoint decode_be (dims : list Z) (ptr : Z) : pos :=
  match dims with
  | [] => []                         (* unreachable for n_dimensions >= 1 *)
  | [d] => [ptr]
  | d :: rest => (ptr / zprod rest mod d) :: decode_be rest (ptr mod zprod rest)
  end.

(* get_direction: start from round(|S| ** (1/n)) — a float computation, hence an oracle d0 — and
   decrease until coprime with |S| *)
Fixpoint get_direction (fuel : nat) (S d : Z) : res Z :=
  match fuel with
  | O => Err OutOfFuel
  | S f => if Z.gcd S d =? 1 then Ok d else get_direction f S (d - 1)
  end.

(* the pass test after the C16 fix: a pass is finished when nth_trial*step crosses a multiple of |S| *)
Definition pass_finished (S s t : Z) : bool := ((t - 1) * s / S) <? (t * s / S).
(* the unchanged tree compared t with t+1 and so restarted one step early *)
Definition pass_finished_unfixed (S s t : Z) : bool := (t * s / S) <? ((t + 1) * s / S).

Definition next_ptr_gen (pf : Z -> Z -> Z -> bool) (S s d t p : Z) : Z :=
  if pf S s t then p mod s + 1 else (p + s * d) mod S.
Definition next_ptr := next_ptr_gen pass_finished.

Record diag_state := mkDiag { dg_dir : option Z; dg_ptr : Z; dg_trial : Z }.
Definition diag_init : diag_state := mkDiag None 0 0.

(* DiagonalGridSearchOptimizer.iterate (no constraints): returns the position; d0 = the float guess *)
Definition diag_iterate_gen pf (dims : list Z) (s d0 : Z) (st : diag_state) : res (diag_state * pos) :=
  let S := zprod dims in
  match dg_dir st with
  | None => do d <- get_direction (Z.to_nat d0 + 1) S d0;
            Ok (mkDiag (Some d) (dg_ptr st) (dg_trial st), map (fun _ => 0) dims)
  | Some d => let p := next_ptr_gen pf S s d (dg_trial st) (dg_ptr st) in
              Ok (mkDiag (Some d) p (dg_trial st), decode_be dims p)
  end.
Definition diag_iterate := diag_iterate_gen pass_finished.
(* evaluate: nth_trial += 1 *)
Definition grid_evaluate (st : diag_state) : diag_state := mkDiag (dg_dir st) (dg_ptr st) (dg_trial st + 1).

Fixpoint diag_run_gen pf (n : nat) dims s d0 (st : diag_state) : res (list pos) :=
  match n with
  | O => Ok []
  | S k => do sp <- diag_iterate_gen pf dims s d0 st;
           let '(st1, p) := sp in
           do rest <- diag_run_gen pf k dims s d0 (grid_evaluate st1);
           Ok (p :: rest)
  end.
Definition diag_run := diag_run_gen pass_finished.

(* ---------- orthogonal: little-endian decoding of nth_trial*step + completed passes ---------- *)
Fixpoint decode_le (dims : list Z) (x : Z) : pos :=
  match dims with
  | [] => []
  | d :: rest => (x mod d) :: decode_le rest (x / d)
  end.
Definition orth_pointer (S s t : Z) : Z := t * s + t * s / S.
Definition orth_iterate (dims : list Z) (s t : Z) : pos := decode_le dims (orth_pointer (zprod dims) s t).
Definition orth_run (n : nat) (dims : list Z) (s : Z) : list pos :=
  map (fun t => orth_iterate dims s (Z.of_nat t)) (seq 0 n).
