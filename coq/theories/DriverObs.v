(* DriverObs.v — what the driver correspondence units (D) observe of a Search object, and the
   runner that replays a recorded case in the model. *)
Require Import Base StopRun Converter Driver.

Definition metrics_eqb (a b : metrics) : bool :=
  list_eqb (fun x y => (fst x =? fst y) && (snd x =? snd y)) a b.
Definition result_eqb (a b : result) : bool :=
  score_same (r_score a) (r_score b) && option_eqb metrics_eqb (r_metrics a) (r_metrics b).
Definition row_eqb (a b : row) : bool :=
  metrics_eqb (row_metrics a) (row_metrics b) && score_same (row_score a) (row_score b)
  && list_eqb Z.eqb (row_values a) (row_values b).
Definition zlist_eqb := list_eqb Z.eqb.

Record obs := mkObs {
  ob_rows : list row;
  ob_pos_l : list pos;
  ob_score_l : list score;
  ob_counters : list Z;             (* n_init_total; n_iter_total; n_init_search; n_iter_search; clock reads *)
  ob_eval_times : list Z;
  ob_iter_times : list Z;
  ob_fcalls : list values;
  ob_best_score : score;
  ob_best_value : option values;
  ob_memory_dict : list (pos * result)
}.

Definition observe {O} (s : drv O) : obs :=
  mkObs (d_rows s) (d_pos_l s) (d_score_l s)
        [d_n_init_total s; d_n_iter_total s; d_n_init_search s; d_n_iter_search s; Z.of_nat (d_clk s)]
        (d_eval_times s) (d_iter_times s) (d_fcalls s) (d_best_score s) (d_best_value s) (d_memory_dict s).

(* which component differs (0 = equal), so a mismatch names the field *)
Definition obs_diff (a b : obs) : Z :=
  if negb (list_eqb row_eqb (ob_rows a) (ob_rows b)) then 1 else
  if negb (list_eqb zlist_eqb (ob_pos_l a) (ob_pos_l b)) then 2 else
  if negb (list_eqb score_same (ob_score_l a) (ob_score_l b)) then 3 else
  if negb (zlist_eqb (ob_counters a) (ob_counters b)) then 4 else
  if negb (zlist_eqb (ob_eval_times a) (ob_eval_times b)) then 5 else
  if negb (zlist_eqb (ob_iter_times a) (ob_iter_times b)) then 6 else
  if negb (list_eqb zlist_eqb (ob_fcalls a) (ob_fcalls b)) then 7 else
  if negb (score_same (ob_best_score a) (ob_best_score b)) then 8 else
  if negb (option_eqb zlist_eqb (ob_best_value a) (ob_best_value b)) then 9 else
  if negb (list_eqb (fun x y => zlist_eqb (fst x) (fst y) && result_eqb (snd x) (snd y))
             (ob_memory_dict a) (ob_memory_dict b)) then 10 else 0.

Record dcase := mkDcase {
  dc_space : space;
  dc_n_inits : Z;
  dc_props : list pos;                       (* proposals recorded from the real optimizer *)
  dc_script : list result;                   (* results by objective-call index ... *)
  dc_table : list (values * result);         (* ... then by value vector *)
  dc_clock : list Z;                         (* recorded readings of time.time() *)
  dc_calls : list call;
  dc_steps_api : bool;                       (* drive through init_search/search_step/finish_search *)
  dc_expect : list obs                       (* observation after each call *)
}.

Definition case_f (c : dcase) (k : nat) (v : values) : result :=
  match nth_error (dc_script c) k with
  | Some r => r
  | None => match dict_get zlist_eqb v (dc_table c) with Some r => r | None => mkResult SNaN None end
  end.
Definition case_clk (c : dcase) (k : nat) : Z := nth k (dc_clock c) (-1).

Fixpoint run_calls (c : dcase) (s : drv scripted) (cs : list call) : res (list obs) :=
  match cs with
  | [] => Ok []
  | cl :: tl =>
      do s1 <- (if dc_steps_api c then search_by_steps (dc_space c) (case_f c) (case_clk c) s cl
                else search (dc_space c) (case_f c) (case_clk c) s cl);
      do rest <- run_calls c s1 tl;
      Ok (observe s1 :: rest)
  end.

Definition run_case (c : dcase) : res (list obs) :=
  run_calls c (drv_new (O := scripted) (dc_n_inits c, dc_props c)) (dc_calls c).

(* 0 = agree; otherwise 100*call_index + field number; -1 = model error; -2 = length mismatch *)
Fixpoint diff_list (i : Z) (a b : list obs) : Z :=
  match a, b with
  | [], [] => 0
  | x :: a', y :: b' => let d := obs_diff x y in if d =? 0 then diff_list (i + 1) a' b' else 100 * i + d
  | _, _ => -2
  end.
Definition case_diff (c : dcase) : Z :=
  match run_case c with Ok o => diff_list 0 o (dc_expect c) | Err _ => -1 end.
Definition case_ok (c : dcase) : bool := case_diff c =? 0.
