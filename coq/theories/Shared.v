(* Shared.v — the memory wrapper's three dictionary operations (contains / get / set) executed by
   N concurrently searching processes on ONE shared dictionary (multiprocessing DictProxy), as a
   small-step semantics driven by an arbitrary schedule.  Each proxy operation is atomic. *)
From Coq Require Import ZArith List Bool Lia.
Import ListNotations.

Section Shared.
  Variable key : Type.
  Variable key_eqb : key -> key -> bool.
  Variable val : Type.
  Variable f : key -> val.          (* deterministic objective *)

  Definition map_t := list (key * val).          (* newest binding first *)
  Fixpoint lookup (m : map_t) (k : key) : option val :=
    match m with [] => None | (k', v) :: tl => if key_eqb k k' then Some v else lookup tl k end.

  (* program counter of one lookup in the memory wrapper:
       if pos_tuple in memory_dict:      (AtContains)
           return memory_dict[pos_tuple] (AtGet)
       else: score = f(para); memory_dict[pos_tuple] = score (AtSet) *)
  Inductive pc := AtContains | AtGet | AtSet.
  Record proc := mkProc { todo : list key; at_ : pc; outs : list (key * val) }.

  (* one atomic step of process p on the shared map m; None = KeyError (a crash) *)
  Definition step (p : proc) (m : map_t) : option (proc * map_t) :=
    match todo p with
    | [] => None
    | k :: rest =>
      match at_ p with
      | AtContains => match lookup m k with
                      | Some _ => Some (mkProc (todo p) AtGet (outs p), m)
                      | None   => Some (mkProc (todo p) AtSet (outs p), m) end
      | AtGet => match lookup m k with
                 | Some v => Some (mkProc rest AtContains ((k, v) :: outs p), m)
                 | None => None end
      | AtSet => Some (mkProc rest AtContains ((k, f k) :: outs p), (k, f k) :: m)
      end
    end.

  Fixpoint upd (ps : list proc) (i : nat) (p : proc) : list proc :=
    match ps, i with [], _ => [] | _ :: tl, O => p :: tl | q :: tl, S j => q :: upd tl j p end.

  (* run a schedule (list of process ids); a step of a finished/nonexistent process is skipped *)
  Fixpoint exec (ps : list proc) (m : map_t) (sched : list nat) : option (list proc * map_t) :=
    match sched with
    | [] => Some (ps, m)
    | i :: tl => match nth_error ps i with
                 | None => exec ps m tl
                 | Some p => match todo p with
                             | [] => exec ps m tl
                             | _ => match step p m with
                                    | None => None
                                    | Some (p', m') => exec (upd ps i p') m' tl end end end
    end.
End Shared.
