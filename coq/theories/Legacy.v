(* Legacy.v — behaviour of the UNCHANGED tree that was repaired by "fix:" commits, kept so that the
   refutation witnesses stay machine-checked.  Nothing here is used by the current model. *)
Require Import Base Converter.

(* numpy 2.5's ndarray.searchsorted(key) (side="left"): the branchless halving search, which is
   also what it computes on unsorted input *)
Fixpoint ss_loop (fuel : nat) (a : list Z) (key : Z) (base n : Z) : Z :=
  match fuel with
  | O => base
  | S f =>
      if n <=? 1 then base else
      let half := n / 2 in
      match nth_error a (Z.to_nat (base + half)) with
      | Some x => if x <? key then ss_loop f a key (base + half) (n - half) else ss_loop f a key base half
      | None => base
      end
  end.
Definition np_searchsorted (a : list Z) (key : Z) : Z :=
  match a with
  | [] => 0
  | _ => let base := ss_loop (length a) a key 0 (zlen a) in
         match nth_error a (Z.to_nat base) with Some x => if x <? key then base + 1 else base | None => base end
  end.

(* values2positions of the unchanged tree: searchsorted per dimension on the raw array *)
Definition values2positions_unfixed_1d (dim : list Z) (vals : list Z) : list Z := map (np_searchsorted dim) vals.
