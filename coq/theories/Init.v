(* Init.v — init_positions.py (warm start, assembling the list of initial positions) and
   base_population_optimizer.split with the population optimizers' round-robin init schedule. *)
Require Import Base Converter.

(* Initializer._init_warm_start after the C10 fix: the dictionary is read by parameter NAME
   (conv.para2value), converted to the nearest position, and kept if it satisfies the constraints *)
Definition warm_start_position (sp : space) (names : list Z) (w : para) : res pos :=
  do v <- para2value names w; value2position sp v.

(* the unchanged tree read list(w.values()) positionally, i.e. in the dictionary's own key order *)
Definition warm_start_position_unfixed (sp : space) (w : para) : res pos := value2position sp (map snd w).

Fixpoint filter_res {A} (f : A -> res bool) (l : list A) : res (list A) :=
  match l with
  | [] => Ok []
  | x :: tl => do b <- f x; do r <- filter_res f tl; Ok (if b then x :: r else r)
  end.

Definition init_warm_start (sp : space) (cons : values -> bool) (names : list Z) (ws : list para) : res (list pos) :=
  do ps <- map_res (warm_start_position sp names) ws;
  filter_res (not_in_constraint sp cons) ps.

(* Initializer.set_pos: the component lists in source order, then random padding up to n_inits *)
Definition assemble (rnd grid vert warm fill : list pos) : list pos := rnd ++ grid ++ vert ++ warm ++ fill.
Definition n_fill (n_inits : Z) (have : list pos) : nat := Z.to_nat (n_inits - zlen have).

(* split(positions_l, population): individual i receives positions i, i+P, i+2P, ... *)
Fixpoint every_nth_aux {A} (fuel : nat) (l : list A) (idx P : nat) : list A :=
  match fuel with
  | O => []
  | S f => match nth_error l idx with Some x => x :: every_nth_aux f l (idx + P) P | None => [] end
  end.
Definition split {A} (l : list A) (P : nat) : list (list A) :=
  map (fun i => every_nth_aux (length l) l i P) (seq 0 P).

(* population init_pos at (global) init step t: member t mod P serves its (t / P)-th own initial position *)
Definition pop_init_pos {A} (shares : list (list A)) (P t : nat) : option A :=
  match nth_error shares (t mod P) with Some sh => nth_error sh (t / P) | None => None end.
