(* StopRun.v — _stop_run.py: time_exceeded, score_exceeded, no_change, StopRun.check.
   Python truthiness is modelled explicitly.  Finite scores only in no_change (C13's quantifier);
   a non-finite score in the history makes no_change return Err Unspecified (not compared). *)
Require Import Base.

(* early_stopping dictionary; absent key and key with value None are both None for the tolerances *)
Record early_cfg := mkEarly {
  es_n       : option Z;          (* "n_iter_no_change" *)
  es_tol_abs : option Z;          (* same integer scale as the scores *)
  es_tol_rel : option (Z * Z)     (* percent as numerator / denominator, denominator > 0 *)
}.

Record stop_cfg := mkStop {
  st_max_time  : option Z;        (* clock ticks *)
  st_max_score : option score;
  st_early     : option early_cfg (* None = None or {} (both falsy) *)
}.

Definition no_stop : stop_cfg := mkStop None None None.

(* time_exceeded(start, max_time) = max_time and (now - start > max_time) ; max_time = 0 is falsy *)
Definition time_exceeded (start now max_time : Z) : bool :=
  negb (max_time =? 0) && (max_time <? now - start).

(* score_exceeded after the C12 fix: `max_score is not None and score_best >= max_score` *)
Definition score_exceeded (best : score) (m : option score) : bool :=
  match m with None => false | Some ms => sge best ms end.

(* the unchanged tree's truthiness reading: `max_score and score_best >= max_score` (0, 0.0, -0.0 falsy) *)
Definition truthy_score (s : score) : bool := match s with SFin 0 => false | _ => true end.
Definition score_exceeded_truthy (best : score) (m : option score) : bool :=
  match m with None => false | Some ms => truthy_score ms && sge best ms end.

(* all finite?  returns the integer list *)
Fixpoint finite_scores (l : list score) : option (list Z) :=
  match l with
  | [] => Some []
  | SFin z :: tl => match finite_scores tl with Some zs => Some (z :: zs) | None => None end
  | _ :: tl => None
  end.

(* no_change on finite scores.
   pyfloat_zero_raises = true models the unchanged tree with python-float/int scores, where a zero
   baseline under tol_rel raises ZeroDivisionError; false models the guarded (fixed) code, which
   is also what numpy float64 scores did before the fix (x/0.0 = inf, `inf < tol` is False). *)
Definition no_change_gen (zero_raises : bool) (scores : list Z) (cfg : early_cfg) : res bool :=
  match es_n cfg with
  | None => Ok false                                  (* warning, return False *)
  | Some n =>
    let len := zlen scores in
    if len <=? n then Ok false else
    do max_score <- max_py scores;
    do max_index <- argmax_first scores;
    let diff := len - Z.of_nat max_index in
    if n <? diff then Ok true else
    let first_n := len - n in
    do max_first_n <- max_py (take (Z.to_nat first_n) scores);
    let abs_hit := match es_tol_abs cfg with
                   | Some a => Z.abs (max_first_n - max_score) <? a
                   | None => false end in
    if abs_hit then Ok true else
    match es_tol_rel cfg with
    | None => Ok false
    | Some (rn, rd) =>
      if max_first_n =? 0 then (if zero_raises then Err ZeroDivisionError else Ok false)
      else Ok ((max_score - max_first_n) * 100 * rd <? rn * Z.abs max_first_n)
    end
  end.

Definition no_change := no_change_gen false.
Definition no_change_unfixed_pyfloat := no_change_gen true.

Definition no_change_scores (l : list score) (cfg : early_cfg) : res bool :=
  match finite_scores l with Some zs => no_change zs cfg | None => Err Unspecified end.

(* StopRun.check(): the clock is read only when max_time is truthy *)
Definition check_reads_clock (c : stop_cfg) : bool :=
  match st_max_time c with Some t => negb (t =? 0) | None => false end.

Definition check (c : stop_cfg) (start now : Z) (best : score) (score_l : list score) : res bool :=
  let t := match st_max_time c with Some t => time_exceeded start now t | None => false end in
  if t then Ok true else
  if score_exceeded best (st_max_score c) then Ok true else
  match st_early c with
  | None => Ok false
  | Some cfg => no_change_scores score_l cfg
  end.
