(* Pop.v — the position-producing step (iterate) of the population optimizers, pop_opt/*.py:
   ParticleSwarmOptimizer, SpiralOptimization, DifferentialEvolutionOptimizer, EvolutionStrategyOptimizer,
   GeneticAlgorithmOptimizer.  What is modelled is the discrete logic around the float arithmetic: which draws are
   consumed, truncation / rounding / clipping into the box, the constraint test and the fallback path.  The float
   vectors themselves (a particle's new velocity, the spiral point, DE's mutant) are ORACLE entries of the tape: the
   harness recomputes them with numpy from the observed pre-state and the logged draws and places them where the
   model reads them, so a change of the formula shows up as a correspondence failure.
   Result of every function: (position, rest of the tape, number of constraint evaluations). *)
Require Import Base Converter CoreOpt.

Section Pop.
  Variable sp : space.
  Variable cons : values -> bool.
  Variable fuel : nat.
  Variable rrp : Z * Z.                     (* rand_rest_p of the member, a dyadic *)

  Let n := length sp.

  (* the random_iteration decorator with a running constraint-evaluation count *)
  Definition rand_iter (t : tape) (c : Z) (body : tape -> res (pos * tape * Z)) : res (pos * tape * Z) :=
    match t with
    | DF um ue :: t' => if dyadic_gt (fst rrp) (snd rrp) um ue then move_random sp cons fuel t' c else body t'
    | _ => Err OutOfTape
    end.

  (* `if not_in_constraint(p): return p` else the member's move_climb *)
  Definition or_climb (p : pos) (t : tape) (c : Z) : res (pos * tape * Z) :=
    do ok <- feasible sp cons p;
    if ok then Ok (p, t, c + 1) else move_climb sp cons fuel t (c + 1).

  (* ---------- ParticleSwarmOptimizer.iterate (after fix D6) ----------
     Particle.move_linear = random_iteration(r1, r2 = random.random() x2; new_velocity (oracle); _move_part) *)
  Definition move_linear (cur : pos) (t : tape) : res (pos * tape * Z) :=
    rand_iter t 0 (fun t1 =>
      match t1 with
      | DF _ _ :: DF _ _ :: t2 => do vt <- read_reals n t2; Ok (move_part sp cur (fst vt), snd vt, 0)
      | _ => Err OutOfTape
      end).
  Definition pso_iterate (cur : pos) (t : tape) : res (pos * tape * Z) :=
    do r <- move_linear cur t; let '(p, t1, c) := r in or_climb p t1 c.

  (* ---------- SpiralOptimization.iterate ----------
     Spiral.move_spiral = random_iteration(new_pos = center + step_rate * rot(cur - center) (oracle);
                                           np.clip(new_pos, 0, max).astype(int)) — clip first, then truncate *)
  Definition clip_trunc (maxp : Z) (x : xreal) : Z :=
    match x with
    | XF m e => if 0 <=? e then Z.min (Z.max (m * 2 ^ e) 0) maxp
                else let d := 2 ^ (- e) in
                     if m <? 0 then 0 else if maxp * d <? m then maxp else m / d
    | XPInf => maxp
    | XNInf => 0
    | XNaN => int64_min
    end.
  Definition spiral_point (xs : list xreal) : pos :=
    map (fun mx => clip_trunc (fst mx) (snd mx)) (zip (max_positions sp) xs).
  Definition move_spiral (t : tape) : res (pos * tape * Z) :=
    rand_iter t 0 (fun t1 => do vt <- read_reals n t1; Ok (spiral_point (fst vt), snd vt, 0)).
  (* infeasible: the member's own HillClimbing.iterate = random_iteration(move_climb(pos_current)) *)
  Definition spiral_iterate (t : tape) : res (pos * tape * Z) :=
    do r <- move_spiral t; let '(p, t1, c) := r in
    do ok <- feasible sp cons p;
    if ok then Ok (p, t1, c + 1) else rand_iter t1 (c + 1) (fun t2 => move_climb sp cons fuel t2 (c + 1)).

  (* ---------- DifferentialEvolutionOptimizer.iterate ----------
     mutation(): random.sample(individuals, 3) -> three indices (consumed, checked distinct and in range);
     mutant = x1 + rate * (x2 - x3) (oracle vector); discrete_recombination([target, mutant], [1-cr, cr]):
     one np.random.choice([0, 1]) per dimension; conv2pos; _constraint_loop; conv2pos again *)
  Fixpoint read_choices (k : nat) (hi : Z) (t : tape) : res (list Z * tape) :=
    match k with
    | O => Ok ([], t)
    | S k' => match t with
              | DZ z :: t' => if (0 <=? z) && (z <? hi) then do r <- read_choices k' hi t'; Ok (z :: fst r, snd r)
                              else Err BadOracle
              | _ => Err OutOfTape
              end
    end.

  Definition distinct3 (a b c : Z) : bool := negb (a =? b) && negb (a =? c) && negb (b =? c).

  (* np.choose(choice, [target, mutant]) *)
  Fixpoint choose2 (ch : list Z) (a b : list xreal) : list xreal :=
    match ch, a, b with
    | c :: ch', x :: a', y :: b' => (if c =? 0 then x else y) :: choose2 ch' a' b'
    | _, _, _ => []
    end.

  (* while True: if feasible(p): return p; p = member.move_climb(p, epsilon_mod=0.3) *)
  Fixpoint constraint_loop (f : nat) (p : pos) (t : tape) (c : Z) : res (pos * tape * Z) :=
    match f with
    | O => Err OutOfFuel
    | S f' => do ok <- feasible sp cons p;
              if ok then Ok (p, t, c + 1)
              else do r <- move_climb sp cons fuel t (c + 1); let '(q, t', c') := r in constraint_loop f' q t' c'
    end.

  Definition xpos (p : pos) : list xreal := map (fun z => XF z 0) p.

  Definition de_iterate (pop : Z) (target : pos) (t : tape) : res (pos * tape * Z) :=
    match t with
    | DZ i1 :: DZ i2 :: DZ i3 :: t1 =>
        if negb (distinct3 i1 i2 i3 && (0 <=? i1) && (i1 <? pop) && (0 <=? i2) && (i2 <? pop) && (0 <=? i3) && (i3 <? pop))
        then Err BadOracle else
        do mt <- read_reals n t1;
        do ct <- read_choices n 2 (snd mt);
        let mixed := choose2 (fst ct) (xpos target) (fst mt) in
        do r <- conv2pos sp cons fuel mixed (snd ct) 0; let '(p, t2, c) := r in
        do r2 <- constraint_loop fuel p t2 c; let '(q, t3, c2) := r2 in
        conv2pos sp cons fuel (xpos q) t3 c2
    | _ => Err OutOfTape
    end.

  (* ---------- EvolutionStrategyOptimizer / GeneticAlgorithmOptimizer: the recombination step ----------
     discrete_recombination(parents) with uniform choice: one np.random.choice(range(k)) per dimension, np.choose;
     the child is tested and replaced by move_climb when infeasible (ES._cross after fix D11; GA._crossover's loop) *)
  Fixpoint choose_k (ch : list Z) (parents : list pos) (i : nat) : res pos :=
    match ch with
    | [] => Ok []
    | c :: ch' => do par <- nth_nowrap parents c;
                  do x <- nth_nowrap par (Z.of_nat i);
                  do rest <- choose_k ch' parents (S i);
                  Ok (x :: rest)
    end.
  Definition recombine (parents : list pos) (t : tape) : res (pos * tape) :=
    do ct <- read_choices n (zlen parents) t;
    do child <- choose_k (fst ct) parents 0;
    Ok (child, snd ct).
  Definition cross_or_climb (parents : list pos) (t : tape) : res (pos * tape * Z) :=
    do ct <- recombine parents t; or_climb (fst ct) (snd ct) 0.

  (* ---------- EvolutionStrategyOptimizer.iterate ----------
     one individual: its own hill-climbing iterate.  Otherwise: rnd_int = random.randint(0, P-1) picks p_current from the
     population sorted by score (the order is an oracle: `curs` lists pos_current in that order); rand = np.random.uniform(0,
     mutation_rate + crossover_rate); rand <= mutation_rate: p_current's hill-climbing iterate; else _cross: a second index by
     random.choice (different from rnd_int, below P-1 when P > 2), discrete recombination of the two current positions, constraint
     test / move_climb fallback *)
  Definition hill_iterate (t : tape) : res (pos * tape * Z) :=
    rand_iter t 0 (fun t1 => move_climb sp cons fuel t1 0).

  Definition dyadic_le (am ae bm be : Z) : bool := negb (dyadic_gt am ae bm be).

  Definition es_iterate (mut : Z * Z) (curs : list pos) (t : tape) : res (pos * tape * Z) :=
    let P := zlen curs in
    if P =? 1 then hill_iterate t else
    match t with
    | DZ r :: DF um ue :: t1 =>
        if negb ((0 <=? r) && (r <? P)) then Err BadOracle else
        if dyadic_le um ue (fst mut) (snd mut) then hill_iterate t1 else
        match t1 with
        | DZ r2 :: t2 =>
            if negb ((0 <=? r2) && (r2 <? (if 2 <? P then P - 1 else P)) && negb (r2 =? r)) then Err BadOracle else
            do a <- nth_nowrap curs r; do b <- nth_nowrap curs r2;
            cross_or_climb [a; b] t2
        | _ => Err OutOfTape
        end
    | _ => Err OutOfTape
    end.

  (* ---------- GeneticAlgorithmOptimizer.iterate ----------
     like the evolution strategy up to the branch; the crossover branch serves positions from a queue (offspring_l) that
     _crossover refills when empty: fittest half of the sorted population (`news` lists pos_new in sorted order), with
     probability 0.01 one of them replaced by a random member of the other half, n_parents of them sampled, `offspring` children by
     discrete recombination, each passed through the constraint loop.  Result: position, tape, constraint evaluations, new queue *)
  Fixpoint read_distinct (k : nat) (hi : Z) (seen : list Z) (t : tape) : res (list Z * tape) :=
    match k with
    | O => Ok ([], t)
    | S k' => match t with
              | DZ z :: t' => if (0 <=? z) && (z <? hi) && negb (existsb (Z.eqb z) seen)
                              then do r <- read_distinct k' hi (z :: seen) t'; Ok (z :: fst r, snd r)
                              else Err BadOracle
              | _ => Err OutOfTape
              end
    end.

  Fixpoint replace_nth {A} (l : list A) (i : nat) (x : A) : list A :=
    match l, i with
    | [], _ => []
    | _ :: tl, O => x :: tl
    | y :: tl, S i' => y :: replace_nth tl i' x
    end.

  Fixpoint make_offspring (k : nat) (parents : list pos) (t : tape) (c : Z) : res (list pos * tape * Z) :=
    match k with
    | O => Ok ([], t, c)
    | S k' => do ct <- recombine parents t;
              do r <- constraint_loop fuel (fst ct) (snd ct) c; let '(q, t1, c1) := r in
              do rest <- make_offspring k' parents t1 c1; let '(qs, t2, c2) := rest in
              Ok (q :: qs, t2, c2)
    end.

  Definition ga_crossover (n_parents : Z) (n_offspring : nat) (news : list pos) (t : tape) : res (list pos * tape * Z) :=
    let P := zlen news in
    let nf := Z.to_nat (P / 2) in                      (* int(len * 0.5) *)
    let best := firstn nf news in
    let worst := skipn nf news in
    match t with
    | DF rm re :: t1 =>
        do bt <- (if negb (dyadic_gt rm re 5764607523034235 (-59))      (* 0.01 >= random.random(); 0.01 = 5764607523034235 * 2^-59 *)
                  then match t1 with
                       | DZ j :: DZ i :: t2 =>       (* best_l[randint(...)] = random.choice(worst_l): the right-hand side is evaluated first *)
                           if negb ((0 <=? i) && (i <? zlen best)) then Err ValueError else
                           do w <- nth_nowrap worst j; Ok (replace_nth best (Z.to_nat i) w, t2)
                       | _ => Err OutOfTape
                       end
                  else Ok (best, t1));
        let '(best1, t3) := bt in
        if zlen best1 <? n_parents then Err ValueError else     (* random.sample: sample larger than population (finding F-D9a) *)
        do it <- read_distinct (Z.to_nat n_parents) (zlen best1) [] t3;
        do parents <- map_res (nth_nowrap best1) (fst it);
        make_offspring n_offspring parents (snd it) 0
    | _ => Err OutOfTape
    end.

  Definition ga_iterate (mut : Z * Z) (n_parents : Z) (n_offspring : nat) (news : list pos) (queue : list pos) (t : tape)
    : res (pos * tape * Z * list pos) :=
    let P := zlen news in
    if P =? 1 then do r <- hill_iterate t; Ok (r, queue) else
    match t with
    | DZ r :: DF um ue :: t1 =>
        if negb ((0 <=? r) && (r <? P)) then Err BadOracle else
        if dyadic_le um ue (fst mut) (snd mut) then do x <- hill_iterate t1; Ok (x, queue) else
        match queue with
        | q :: rest => Ok (q, t1, 0, rest)
        | [] => do r <- ga_crossover n_parents n_offspring news t1; let '(qs, t2, c) := r in
                match qs with q :: rest => Ok (q, t2, c, rest) | [] => Err IndexError end
        end
    | _ => Err OutOfTape
    end.

  (* ---------- PatternSearch.iterate ----------
     random_iteration( pop the head of pattern_pos_l; feasible -> return it, else move_climb ).  The pattern list is refilled by
     evaluate / finish_initialization (generate_pattern); an empty list is Python's IndexError (finding F-D12e of C15).
     Result: position, tape, constraint evaluations, remaining list (a random restart does not pop) *)
  Definition pattern_iterate (queue : list pos) (t : tape) : res (pos * tape * Z * list pos) :=
    match t with
    | DF um ue :: t' =>
        if dyadic_gt (fst rrp) (snd rrp) um ue then do r <- move_random sp cons fuel t' 0; Ok (r, queue)
        else match queue with
             | [] => Err IndexError
             | q :: rest => do r <- or_climb q t' 0; Ok (r, rest)
             end
    | _ => Err OutOfTape
    end.

  (* ---------- DownhillSimplexOptimizer.iterate ----------
     every branch (reflection, expansion, contraction, shrink) computes a float vector from the simplex (oracle `xs`), converts it
     with conv2pos, returns it when feasible and otherwise the move_climb neighbour *)
  Definition vec_iterate (xs : list xreal) (t : tape) : res (pos * tape * Z) :=
    do r <- conv2pos sp cons fuel xs t 0; let '(p, t1, c) := r in or_climb p t1 c.

  (* ---------- PowellsMethod.iterate / DirectAlgorithm.iterate ----------
     the candidate (a point of the inner line search / the centre of a sub-space: an oracle position, checked in-box by the
     correspondence unit) is returned when feasible, otherwise replaced by move_climb; Powell's iterate is wrapped in random_iteration *)
  Definition cand_iterate (cand : pos) (t : tape) : res (pos * tape * Z) := or_climb cand t 0.
  Definition powell_iterate (cand : pos) (t : tape) : res (pos * tape * Z) := rand_iter t 0 (fun t1 => or_climb cand t1 0).
  Fixpoint in_box_b (s : space) (p : pos) : bool :=
    match s, p with
    | [], [] => true
    | dim :: s', z :: p' => (0 <=? z) && (z <? zlen dim) && in_box_b s' p'
    | _, _ => false
    end.
End Pop.

(* ---------- the model-based optimizers (Bayesian, forest, TPE, Lipschitz): the position-producing step ----------
   a proposal is a member of the candidate set pos_comb (Smbo.proposal_ok); every candidate was built from the position grid and filtered
   by the constraints when all_pos_comb was created -- the correspondence unit checks `forallb (emit_b sp cons) comb` on every observed
   candidate set *)
Definition emit_b (sp : space) (cons : values -> bool) (p : pos) : bool :=
  in_box_b sp p && match feasible sp cons p with Ok true => true | _ => false end.
