(* CoreOpt.v — core_optimizer.py / utils.py: conv2pos, move_random, move_climb, random_iteration.
   Randomness is an input tape: every call of random.* / numpy.random.* consumes one draw (vector samplers
   one draw per component).  Finite doubles are exact dyadics m * 2^e. *)
Require Import Base Converter.

Inductive draw :=
| DZ (z : Z)                 (* an integer result: random.choice(range) / randint / np.random.choice index *)
| DF (m e : Z)               (* a finite double m * 2^e: uniform / random / normal / laplace / logistic / gumbel *)
| DPInf | DNInf | DNaN.      (* non-finite samples *)
Definition tape := list draw.

(* extended reals met by conv2pos: an exact dyadic or a non-finite double *)
Inductive xreal := XF (m e : Z) | XPInf | XNInf | XNaN.
Definition xreal_of_draw (d : draw) : res xreal :=
  match d with DF m e => Ok (XF m e) | DPInf => Ok XPInf | DNInf => Ok XNInf | DNaN => Ok XNaN | DZ z => Ok (XF z 0) end.

Definition int64_min : Z := - 2 ^ 63.

(* np.rint: round half to even, exact on dyadics *)
Definition rint_dyadic (m e : Z) : Z :=
  if 0 <=? e then m * 2 ^ e else
  let d := 2 ^ (- e) in
  let q := m / d in let r := m mod d in
  if 2 * r <? d then q else if d <? 2 * r then q + 1 else if Z.even q then q else q + 1.

(* r_pos component after np.rint: an integer, +-inf or NaN *)
Inductive rint_t := RI (z : Z) | RPInf | RNInf | RNaN.
Definition rint_x (x : xreal) : rint_t :=
  match x with XF m e => RI (rint_dyadic m e) | XPInf => RPInf | XNInf => RNInf | XNaN => RNaN end.

(* np.clip(r, 0, maxp).astype(int): NaN survives the clip and becomes int64 min *)
Definition clip_int (maxp : Z) (r : rint_t) : Z :=
  match r with
  | RI z => Z.min (Z.max z 0) maxp
  | RPInf => maxp
  | RNInf => 0
  | RNaN => int64_min
  end.

(* squared distance contribution of one component; None = infinite, the flag = NaN present *)
Definition comp_dist2 (maxp : Z) (r : rint_t) : option Z * bool :=
  match r with
  | RI z => (Some ((z - clip_int maxp r) * (z - clip_int maxp r)), false)
  | RPInf | RNInf => (None, false)
  | RNaN => (Some 0, true)
  end.

(* dist > threshold  with threshold = |S| / 100^n : exact on integers; NaN anywhere makes the comparison False *)
Definition far_outside (sp : space) (rs : list rint_t) : bool :=
  let mp := max_positions sp in
  let cs := map (fun mr => comp_dist2 (fst mr) (snd mr)) (zip mp rs) in
  if existsb snd cs then false else
  if existsb (fun c => match fst c with None => true | Some _ => false end) cs then true else
  let sum := fold_left (fun a c => a + match fst c with Some z => z | None => 0 end) cs 0 in
  let n := Z.of_nat (length sp) in
  let S := space_size sp in
  S * S <? sum * 100 ^ (2 * n).

(* ---------- Particle._move_part / Spiral._move_part: (pos + velo).astype(int) then clip ---------- *)
(* exact dyadic sum z + m*2^e, truncated toward zero (astype(int)); non-finite sums become int64 min *)
Definition trunc_add (z : Z) (x : xreal) : Z :=
  match x with
  | XF m e => if 0 <=? e then z + m * 2 ^ e
              else let d := 2 ^ (- e) in Z.quot (z * d + m) d
  | _ => int64_min
  end.
Definition move_part (sp : space) (p : pos) (velo : list xreal) : pos :=
  map (fun mzx => Z.min (Z.max (trunc_add (fst (snd mzx)) (snd (snd mzx))) 0) (fst mzx))
      (zip (max_positions sp) (zip p velo)).

Section Core.
  Variable sp : space.
  Variable cons : values -> bool.          (* conjunction of all constraints on a decoded parameter set *)

  Definition feasible (p : pos) : res bool := not_in_constraint sp cons p.

  (* utils.move_random: one random.choice(range(d)) per dimension *)
  Fixpoint draw_position (dims : list Z) (t : tape) : res (pos * tape) :=
    match dims with
    | [] => Ok ([], t)
    | d :: rest =>
        match t with
        | DZ z :: t' => if (0 <=? z) && (z <? d) then
                          do pr <- draw_position rest t'; Ok (z :: fst pr, snd pr)
                        else Err BadOracle
        | _ => Err OutOfTape
        end
    end.

  (* CoreOptimizer.move_random: rejection sampling; returns the position, the rest of the tape and the
     number of constraint evaluations *)
  Fixpoint move_random (fuel : nat) (t : tape) (ncalls : Z) : res (pos * tape * Z) :=
    match fuel with
    | O => Err OutOfFuel
    | S f => do pt <- draw_position (dim_sizes sp) t;
             do ok <- feasible (fst pt);
             if ok then Ok (fst pt, snd pt, ncalls + 1) else move_random f (snd pt) (ncalls + 1)
    end.

  Fixpoint read_reals (n : nat) (t : tape) : res (list xreal * tape) :=
    match n with
    | O => Ok ([], t)
    | S k => match t with
             | d :: t' => do x <- xreal_of_draw d; do rt <- read_reals k t'; Ok (x :: fst rt, snd rt)
             | [] => Err OutOfTape
             end
    end.

  (* CoreOptimizer.conv2pos on a real vector *)
  Definition conv2pos (fuel : nat) (xs : list xreal) (t : tape) (ncalls : Z) : res (pos * tape * Z) :=
    let rs := map rint_x xs in
    let p := map (fun mr => clip_int (fst mr) (snd mr)) (zip (max_positions sp) rs) in
    if far_outside sp rs then move_random fuel t ncalls else Ok (p, t, ncalls).

  (* CoreOptimizer.move_climb: sample around the position, convert, retry until feasible.  The samples'
     location/scale (pos, sigma, epsilon_mod *= 1.01) are inside the tape's values. *)
  Fixpoint move_climb (fuel : nat) (t : tape) (ncalls : Z) : res (pos * tape * Z) :=
    match fuel with
    | O => Err OutOfFuel
    | S f => do xt <- read_reals (length sp) t;
             do r <- conv2pos fuel (fst xt) (snd xt) ncalls;
             let '(p, t', c) := r in
             do ok <- feasible p;
             if ok then Ok (p, t', c + 1) else move_climb f t' (c + 1)
    end.

  (* dyadic comparison a > b *)
  Definition dyadic_gt (am ae bm be : Z) : bool :=
    let e := Z.min ae be in bm * 2 ^ (be - e) <? am * 2 ^ (ae - e).

  (* the random_iteration decorator: `if rand_rest_p > random.uniform(0, 1): return move_random()` *)
  Definition random_iteration (rrp_m rrp_e : Z) (fuel : nat) (t : tape)
             (body : tape -> res (pos * tape * Z)) : res (pos * tape * Z) :=
    match t with
    | DF um ue :: t' => if dyadic_gt rrp_m rrp_e um ue then move_random fuel t' 0 else body t'
    | _ => Err OutOfTape
    end.
End Core.
