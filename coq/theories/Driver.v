(* Driver.v — search.py (+ _progress_bar, _results_manager, _memory, _times_tracker,
   _search_statistics) over an ABSTRACT optimizer: the driver only calls init_pos / iterate /
   evaluate_init / evaluate / finish_initialization and reads init.n_inits.  Every theorem about
   this file therefore holds for all 22 algorithms (and for anything else with that interface). *)
Require Import Base StopRun Converter.
From RecordUpdate Require Import RecordSet.
Import RecordSetNotations.

(* ---------- the abstract optimizer ---------- *)
Record optimizer := mkOptimizer {
  ost : Type;
  o_n_inits     : ost -> Z;
  o_init_pos    : ost -> res (ost * pos);
  o_iterate     : ost -> res (ost * pos);
  o_eval_init   : ost -> score -> res ost;
  o_evaluate    : ost -> score -> res ost;
  o_finish_init : ost -> res ost
}.

(* ---------- objective results and rows ---------- *)
Definition metrics := list (Z * Z).
(* what the objective returns: a bare score or a (score, dict) tuple *)
Record result := mkResult { r_score : score; r_metrics : option metrics }.
(* a row of search_data: {**results_dict, **para}; metric keys are assumed disjoint from the
   parameter names and from "score" (see DESIGN C04) *)
Record row := mkRow { row_metrics : metrics; row_score : score; row_values : values }.

Definition result_row (r : result) (v : values) : row :=
  mkRow (match r_metrics r with Some m => m | None => [] end) (r_score r) v.

(* ---------- progress bar ---------- *)
Record pbar := mkPbar { pb_best : score; pb_pos : option pos; pb_since : Z }.
Definition pbar_init : pbar := mkPbar SNInf None 0.
Definition is_none {A} (o : option A) : bool := match o with None => true | Some _ => false end.
(* score_new > score_best or (pos_best is None and score_new == score_best) *)
Definition better (s best : score) (p : option pos) : bool := sgt s best || (is_none p && seqb s best).
Definition new2best (b : pbar) (s : score) (p : pos) : pbar :=
  if better s (pb_best b) (pb_pos b) then mkPbar s (Some p) (pb_since b) else b.
(* the unchanged tree's strict test (never adopts a position for a score tying the initial -inf) *)
Definition new2best_strict (b : pbar) (s : score) (p : pos) : pbar :=
  if sgt s (pb_best b) then mkPbar s (Some p) (pb_since b) else b.
Definition pbar_update_lvl0 (b : pbar) (s : score) (p : pos) (nth_iter : Z) : pbar := new2best b s p.
Definition pbar_update_lvl1 (b : pbar) (s : score) (p : pos) (nth_iter : Z) : pbar :=
  let b1 := if sgt s (pb_best b) then mkPbar (pb_best b) (pb_pos b) nth_iter else b in
  new2best b1 s p.

(* ---------- per-call arguments of search() ---------- *)
Record call := mkCall {
  c_n_iter  : Z;
  c_stop    : stop_cfg;
  c_memory  : bool;                              (* memory not in [False, None] *)
  c_warm    : option (frame score);              (* memory_warm_start *)
  c_lvl1    : bool                               (* "progress_bar" in verbosity *)
}.

(* ---------- the Search object ---------- *)
Record drv (O : optimizer) := mkDrv {
  d_opt : ost O;
  (* lifetime state *)
  d_rows : list row;
  d_pos_l : list pos;
  d_score_l : list score;
  d_n_init_total : Z;
  d_n_iter_total : Z;
  d_eval_times : list Z;
  d_iter_times : list Z;
  d_clk : nat;                                   (* clock readings consumed so far *)
  d_fcalls : list values;                        (* log of objective calls (observation only) *)
  (* per-call state, reset by init_search *)
  d_call : call;
  d_start : Z;
  d_pbar : pbar;
  d_mem : @memdict result;
  d_mem_new : @memdict result;
  d_n_inits_norm : Z;
  d_n_init_search : Z;
  d_n_iter_search : Z;
  (* published by finish_search *)
  d_best_score : score;
  d_best_value : option values;
  d_memory_dict : @memdict result
}.
Arguments mkDrv {O}.
Arguments d_opt {O}. Arguments d_rows {O}. Arguments d_pos_l {O}. Arguments d_score_l {O}.
Arguments d_n_init_total {O}. Arguments d_n_iter_total {O}. Arguments d_eval_times {O}.
Arguments d_iter_times {O}. Arguments d_clk {O}. Arguments d_fcalls {O}. Arguments d_call {O}.
Arguments d_start {O}. Arguments d_pbar {O}. Arguments d_mem {O}. Arguments d_mem_new {O}.
Arguments d_n_inits_norm {O}. Arguments d_n_init_search {O}. Arguments d_n_iter_search {O}.
Arguments d_best_score {O}. Arguments d_best_value {O}. Arguments d_memory_dict {O}.

#[export] Instance eta_drv O : Settable (drv O) :=
  settable! (@mkDrv O) <d_opt; d_rows; d_pos_l; d_score_l; d_n_init_total; d_n_iter_total;
    d_eval_times; d_iter_times; d_clk; d_fcalls; d_call; d_start; d_pbar; d_mem; d_mem_new;
    d_n_inits_norm; d_n_init_search; d_n_iter_search; d_best_score; d_best_value; d_memory_dict>.

Definition default_call : call := mkCall 0 no_stop true None false.

(* Search.__init__ *)
Definition drv_new {O} (o : ost O) : drv O :=
  mkDrv o [] [] [] 0 0 [] [] 0%nat [] default_call 0 pbar_init [] [] 0 0 0 SNInf None [].

Section Run.
  Context {OP : optimizer}.
  Variable sp : space.
  Variable f : nat -> values -> result. (* objective: number of earlier objective calls, value vector;
                                           a deterministic objective ignores the first argument *)
  Variable clk : nat -> Z.              (* the k-th reading of time.time() *)

  Definition tick (s : drv OP) : Z * drv OP := (clk (d_clk s), s <| d_clk ::= S |>).

  (* Memory.memory wrapper (or the raw objective when memory is off) *)
  Definition lookup (s : drv OP) (v : values) : res (result * drv OP) :=
    if c_memory (d_call s) then
      do key <- value2position sp v;
      match dict_get pos_eqb key (d_mem s) with
      | Some r => Ok (r, s)
      | None =>
          let r := f (length (d_fcalls s)) v in
          Ok (r, s <| d_fcalls ::= (fun l => l ++ [v]) |>
                   <| d_mem ::= dict_set pos_eqb key r |>
                   <| d_mem_new ::= dict_set pos_eqb key r |>)
      end
    else Ok (f (length (d_fcalls s)) v, s <| d_fcalls ::= (fun l => l ++ [v]) |>).

  (* ResultsManager.score wrapper inside TimesTracker.eval_time *)
  Definition score_of (s : drv OP) (p : pos) : res (score * drv OP) :=
    let '(t0, s) := tick s in
    do v <- position2value sp p;
    do rs <- lookup s v;
    let '(r, s) := rs in
    let s := s <| d_rows ::= (fun l => l ++ [result_row r v]) |> in
    let '(t1, s) := tick s in
    Ok (r_score r, s <| d_eval_times ::= (fun l => l ++ [t1 - t0]) |>).

  Definition pbar_update (s : drv OP) (sc : score) (p : pos) (nth_iter : Z) : pbar :=
    if c_lvl1 (d_call s) then pbar_update_lvl1 (d_pbar s) sc p nth_iter
    else pbar_update_lvl0 (d_pbar s) sc p nth_iter.

  Definition initialization (s : drv OP) (nth_iter : Z) : res (drv OP) :=
    let '(t0, s) := tick s in
    do op <- o_init_pos OP (d_opt s);
    let '(o1, p) := op in
    let s := s <| d_opt := o1 |> in
    do ss <- score_of s p;
    let '(sc, s) := ss in
    do o2 <- o_eval_init OP (d_opt s) sc;
    let s := s <| d_opt := o2 |>
               <| d_pos_l ::= (fun l => l ++ [p]) |>
               <| d_score_l ::= (fun l => l ++ [sc]) |> in
    let s := s <| d_pbar := pbar_update s sc p nth_iter |>
               <| d_n_init_total ::= Z.succ |>
               <| d_n_init_search ::= Z.succ |> in
    let '(t1, s) := tick s in
    Ok (s <| d_iter_times ::= (fun l => l ++ [t1 - t0]) |>).

  Definition iteration (s : drv OP) (nth_iter : Z) : res (drv OP) :=
    let '(t0, s) := tick s in
    do op <- o_iterate OP (d_opt s);
    let '(o1, p) := op in
    let s := s <| d_opt := o1 |> in
    do ss <- score_of s p;
    let '(sc, s) := ss in
    do o2 <- o_evaluate OP (d_opt s) sc;
    let s := s <| d_opt := o2 |>
               <| d_pos_l ::= (fun l => l ++ [p]) |>
               <| d_score_l ::= (fun l => l ++ [sc]) |> in
    let s := s <| d_pbar := pbar_update s sc p nth_iter |>
               <| d_n_iter_total ::= Z.succ |>
               <| d_n_iter_search ::= Z.succ |> in
    let '(t1, s) := tick s in
    Ok (s <| d_iter_times ::= (fun l => l ++ [t1 - t0]) |>).

  (* Search.search_step — three independent `if`s, transcribed literally *)
  Definition search_step (s : drv OP) (nth_iter : Z) : res (drv OP) :=
    do s1 <- (if nth_iter <? d_n_inits_norm s then initialization s nth_iter else Ok s);
    do s2 <- (if nth_iter =? d_n_init_search s1
              then do o' <- o_finish_init OP (d_opt s1); Ok (s1 <| d_opt := o' |>)
              else Ok s1);
    if (d_n_init_search s2 <=? nth_iter) && (nth_iter <? c_n_iter (d_call s2))
    then iteration s2 nth_iter else Ok s2.

  (* Memory.__init__ : fresh dict (a shared DictProxy is modelled in Shared.v), plus warm start *)
  Definition memory_init (c : call) : res (@memdict result) :=
    match c_warm c with
    | None => Ok []
    | Some fr =>
        match fr_rows fr with
        | [] => Ok []                              (* warm_start.empty: warning, no warm start *)
        | _ => do d <- dataframe2memory_dict sp (map Z.of_nat (seq 0 (length sp))) fr;
               Ok (map (fun kv => (fst kv, mkResult (snd kv) None)) d)
        end
    end.

  Definition init_search (s : drv OP) (c : call) : res (drv OP) :=
    let s := s <| d_n_init_search := 0 |> <| d_n_iter_search := 0 |> <| d_call := c |> in
    let '(t, s) := tick s in
    do m <- memory_init c;
    Ok (s <| d_start := t |> <| d_pbar := pbar_init |> <| d_mem := m |> <| d_mem_new := [] |>
          <| d_n_inits_norm := Z.min (o_n_inits OP (d_opt s) - d_n_init_total s) (c_n_iter c) |>).

  Definition stop_check (s : drv OP) : res (bool * drv OP) :=
    let c := c_stop (d_call s) in
    let '(now, s') := if check_reads_clock c then tick s else (0, s) in
    do b <- check c (d_start s) now (pb_best (d_pbar s)) (d_score_l s);
    Ok (b, s').

  (* for nth_trial in range(n_iter): search_step; if stop.check(): break *)
  Fixpoint loop (todo : nat) (nth : Z) (s : drv OP) : res (drv OP) :=
    match todo with
    | O => Ok s
    | S k =>
        do s1 <- search_step s nth;
        do bs <- stop_check s1;
        let '(b, s2) := bs in
        if b then Ok s2 else loop k (nth + 1) s2
    end.

  Definition finish_search (s : drv OP) : res (drv OP) :=
    do bv <- match pb_pos (d_pbar s) with
             | None => Ok None
             | Some p => do v <- position2value sp p; Ok (Some v)
             end;
    Ok (s <| d_best_score := pb_best (d_pbar s) |>
          <| d_best_value := bv |>
          <| d_memory_dict := if c_memory (d_call s) then d_mem s else [] |>).

  Definition search (s : drv OP) (c : call) : res (drv OP) :=
    do s0 <- init_search s c;
    do s1 <- loop (Z.to_nat (c_n_iter c)) 0 s0;
    finish_search s1.

  (* the step API: init_search, search_step(0..n-1) without stop checks, finish_search *)
  Fixpoint steps (todo : nat) (nth : Z) (s : drv OP) : res (drv OP) :=
    match todo with
    | O => Ok s
    | S k => do s1 <- search_step s nth; steps k (nth + 1) s1
    end.
  Definition search_by_steps (s : drv OP) (c : call) : res (drv OP) :=
    do s0 <- init_search s c;
    do s1 <- steps (Z.to_nat (c_n_iter c)) 0 s0;
    finish_search s1.

  (* consecutive search() calls on one optimizer object *)
  Fixpoint searches (s : drv OP) (cs : list call) : res (drv OP) :=
    match cs with
    | [] => Ok s
    | c :: tl => do s1 <- search s c; searches s1 tl
    end.
End Run.

(* ---------- the scripted optimizer used by the driver correspondence units: it replays the
   proposals recorded from the real run and ignores scores ---------- *)
Definition scripted : optimizer :=
  {| ost := Z * list pos;
     o_n_inits := fst;
     o_init_pos := fun st => match snd st with p :: tl => Ok ((fst st, tl), p) | [] => Err OutOfTape end;
     o_iterate  := fun st => match snd st with p :: tl => Ok ((fst st, tl), p) | [] => Err OutOfTape end;
     o_eval_init := fun st _ => Ok st;
     o_evaluate := fun st _ => Ok st;
     o_finish_init := fun st => Ok st |}.
