(* Base.v — shared vocabulary of the model: Python failure as a value, IEEE-like scores,
   list helpers with Python/numpy semantics.  No proofs here (proofs/ holds them). *)
From Coq Require Export ZArith List Bool Lia.
Export ListNotations.
Open Scope Z_scope.

(* ---------- Python exceptions as values ---------- *)
Inductive err := IndexError | ValueError | ZeroDivisionError | KeyError | AttributeError
               | TypeError | NotFitted | OutOfTape | BadOracle | OutOfFuel | Unspecified.

Inductive res (A : Type) := Ok (a : A) | Err (e : err).
Arguments Ok {A} a.
Arguments Err {A} e.

Definition bind {A B} (r : res A) (k : A -> res B) : res B :=
  match r with Ok a => k a | Err e => Err e end.
Notation "'do' x <- r ; k" := (bind r (fun x => k)) (at level 200, x pattern, r at level 100, k at level 200).

Definition is_ok {A} (r : res A) : bool := match r with Ok _ => true | Err _ => false end.

Definition err_eqb (a b : err) : bool :=
  match a, b with
  | IndexError, IndexError | ValueError, ValueError | ZeroDivisionError, ZeroDivisionError
  | KeyError, KeyError | AttributeError, AttributeError | TypeError, TypeError
  | NotFitted, NotFitted | OutOfTape, OutOfTape | BadOracle, BadOracle | OutOfFuel, OutOfFuel
  | Unspecified, Unspecified => true
  | _, _ => false
  end.

(* ---------- scores: finite values are integers at the harness's common scale ---------- *)
Inductive score := SNaN | SNInf | SFin (z : Z) | SPInf.

(* a > b, a >= b, a <= b, a == b with IEEE-754 semantics (every comparison with NaN is false) *)
Definition sgt (a b : score) : bool :=
  match a, b with
  | SNaN, _ | _, SNaN => false
  | SPInf, SPInf => false
  | SPInf, _ => true
  | _, SPInf => false
  | SNInf, _ => false
  | SFin _, SNInf => true
  | SFin x, SFin y => y <? x
  end.
Definition sge (a b : score) : bool :=
  match a, b with
  | SNaN, _ | _, SNaN => false
  | SPInf, _ => true
  | _, SPInf => false
  | _, SNInf => true
  | SNInf, _ => false
  | SFin x, SFin y => y <=? x
  end.
Definition sle (a b : score) : bool := sge b a.
Definition slt (a b : score) : bool := sgt b a.
Definition seqb (a b : score) : bool :=
  match a, b with
  | SNaN, _ | _, SNaN => false
  | SPInf, SPInf | SNInf, SNInf => true
  | SFin x, SFin y => x =? y
  | _, _ => false
  end.
(* structural identity (NaN = NaN), used by comparators only *)
Definition score_same (a b : score) : bool :=
  match a, b with
  | SNaN, SNaN | SPInf, SPInf | SNInf, SNInf => true
  | SFin x, SFin y => x =? y
  | _, _ => false
  end.
Definition is_nan (s : score) : bool := match s with SNaN => true | _ => false end.
Definition is_finite (s : score) : bool := match s with SFin _ => true | _ => false end.

(* ---------- positions ---------- *)
Definition pos := list Z.
Fixpoint pos_eqb (a b : pos) : bool :=
  match a, b with
  | [], [] => true
  | x :: a', y :: b' => (x =? y) && pos_eqb a' b'
  | _, _ => false
  end.

(* ---------- list helpers ---------- *)
Fixpoint list_eqb {A} (eqb : A -> A -> bool) (a b : list A) : bool :=
  match a, b with
  | [], [] => true
  | x :: a', y :: b' => eqb x y && list_eqb eqb a' b'
  | _, _ => false
  end.

Definition option_eqb {A} (eqb : A -> A -> bool) (a b : option A) : bool :=
  match a, b with
  | None, None => true
  | Some x, Some y => eqb x y
  | _, _ => false
  end.

Definition zlen {A} (l : list A) : Z := Z.of_nat (length l).

(* Python list / numpy indexing: a negative index wraps once, anything else out of range raises *)
Definition nth_py {A} (l : list A) (i : Z) : res A :=
  let n := zlen l in
  let j := if i <? 0 then i + n else i in
  if (j <? 0) || (n <=? j) then Err IndexError
  else match nth_error l (Z.to_nat j) with Some x => Ok x | None => Err IndexError end.

(* index without wrapping (what a correct caller relies on) *)
Definition nth_nowrap {A} (l : list A) (i : Z) : res A :=
  if (i <? 0) || (zlen l <=? i) then Err IndexError
  else match nth_error l (Z.to_nat i) with Some x => Ok x | None => Err IndexError end.

Fixpoint map_res {A B} (f : A -> res B) (l : list A) : res (list B) :=
  match l with
  | [] => Ok []
  | x :: tl => do y <- f x; do ys <- map_res f tl; Ok (y :: ys)
  end.

(* Python slicing l[:k] and l[-k:] for 0 <= k *)
Definition take {A} (k : nat) (l : list A) : list A := firstn k l.
Definition last_n {A} (k : nat) (l : list A) : list A := skipn (length l - k) l.

(* maximum of a non-empty Z list (Python max) *)
Fixpoint zmax_list (x : Z) (l : list Z) : Z :=
  match l with [] => x | y :: tl => zmax_list (Z.max x y) tl end.
Definition max_py (l : list Z) : res Z :=
  match l with [] => Err ValueError | x :: tl => Ok (zmax_list x tl) end.

(* np.argmax on finite data: first index of the maximum *)
Fixpoint argmax_first_aux (best : Z) (besti : nat) (i : nat) (l : list Z) : nat :=
  match l with
  | [] => besti
  | y :: tl => if best <? y then argmax_first_aux y i (S i) tl else argmax_first_aux best besti (S i) tl
  end.
Definition argmax_first (l : list Z) : res nat :=
  match l with [] => Err ValueError | x :: tl => Ok (argmax_first_aux x 0%nat 1%nat tl) end.

(* last index of the maximum (hill climbing's max_list_idx) *)
Fixpoint argmax_last_aux (best : Z) (besti : nat) (i : nat) (l : list Z) : nat :=
  match l with
  | [] => besti
  | y :: tl => if best <=? y then argmax_last_aux y i (S i) tl else argmax_last_aux best besti (S i) tl
  end.
Definition argmax_last (l : list Z) : res nat :=
  match l with [] => Err ValueError | x :: tl => Ok (argmax_last_aux x 0%nat 1%nat tl) end.

(* indices of the elements of [cases] on which [chk] is false — the result every correspondence
   unit prints ([] means model and implementation agree on every case) *)
Fixpoint failing_aux {A} (chk : A -> bool) (i : nat) (l : list A) : list nat :=
  match l with
  | [] => []
  | c :: tl => if chk c then failing_aux chk (S i) tl else i :: failing_aux chk (S i) tl
  end.
Definition failing {A} (chk : A -> bool) (l : list A) : list nat := failing_aux chk 0%nat l.
