(* Facade.v — Python keyword-call semantics of the public optimizer classes
   `class X(_X, Search): def __init__(self, p1=d1, ...): super().__init__(k1=e1, ...)`.
   Names and default expressions are integer ids (tables in generated/FacadeData.v). *)
Require Import Base Converter.

Inductive value := VArg (z : Z)        (* a value supplied by the caller *)
                 | VDef (expr : Z).    (* the value of a default expression (by its canonical text) *)
Definition value_eqb (a b : value) : bool :=
  match a, b with VArg x, VArg y => x =? y | VDef x, VDef y => x =? y | _, _ => false end.

Definition sig := list (Z * option Z).          (* parameter name, default expression (None = required) *)
Definition kwargs := list (Z * value).
Definition env := list (Z * value).

Definition zmem (x : Z) (l : list Z) : bool := existsb (Z.eqb x) l.

(* binding keyword arguments to a signature: unknown keyword or missing required argument = TypeError *)
Definition bind_param (kw : kwargs) (pd : Z * option Z) : res (Z * value) :=
  match dict_get Z.eqb (fst pd) kw with
  | Some v => Ok (fst pd, v)
  | None => match snd pd with Some e => Ok (fst pd, VDef e) | None => Err TypeError end
  end.
Definition bind_sig (s : sig) (kw : kwargs) : res env :=
  if forallb (fun k => zmem k (map fst s)) (map fst kw) then map_res (bind_param kw) s else Err TypeError.

Record facade := mkFacade {
  fa_name : Z;
  fa_params : sig;                      (* the facade's __init__ parameters (without self) *)
  fa_forward : list (Z * Z);            (* super().__init__(kw = <expr>): kw id, id of the forwarded NAME (-1 if not a plain name) *)
  fa_backend : sig;                     (* the backend class's __init__ parameters *)
  fa_shape_ok : bool                    (* bases are (backend, Search); __init__ consists of the super call only *)
}.

(* the backend environment when the facade is called with kw *)
Definition call_facade (fa : facade) (kw : kwargs) : res env :=
  do ef <- bind_sig (fa_params fa) kw;
  do kw' <- map_res (fun ke => match dict_get Z.eqb (snd ke) ef with
                               | Some v => Ok (fst ke, v) | None => Err Unspecified end) (fa_forward fa);
  bind_sig (fa_backend fa) kw'.
(* ... and when the backend class is called directly with the same kw *)
Definition call_backend (fa : facade) (kw : kwargs) : res env := bind_sig (fa_backend fa) kw.

Fixpoint nodupb (l : list Z) : bool := match l with [] => true | x :: tl => negb (zmem x tl) && nodupb tl end.

Definition default_of (s : sig) (p : Z) : option (option Z) := dict_get Z.eqb p s.

Definition well_forwarded (fa : facade) : bool :=
  fa_shape_ok fa &&
  nodupb (map fst (fa_params fa)) && nodupb (map fst (fa_backend fa)) &&
  (* every keyword is forwarded under its own name *)
  forallb (fun ke => fst ke =? snd ke) (fa_forward fa) &&
  (* exactly the facade's parameters are forwarded, in some order, each once *)
  nodupb (map fst (fa_forward fa)) &&
  forallb (fun ke => zmem (fst ke) (map fst (fa_params fa))) (fa_forward fa) &&
  forallb (fun p => zmem p (map fst (fa_forward fa))) (map fst (fa_params fa)) &&
  (* every forwarded keyword exists in the backend, with the same default *)
  forallb (fun pd => match default_of (fa_backend fa) (fst pd) with
                     | Some d => option_eqb Z.eqb d (snd pd) | None => false end) (fa_params fa) &&
  (* backend parameters the facade does not expose have a default *)
  forallb (fun pd => zmem (fst pd) (map fst (fa_params fa)) || match snd pd with Some _ => true | None => false end) (fa_backend fa).
