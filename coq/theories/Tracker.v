(* Tracker.v — search_tracker.py: the tracked new / current / best pairs, the valid lists, the decorators,
   and base_optimizer.py / core_optimizer.py evaluate / evaluate_init. *)
Require Import Base Converter.
From RecordUpdate Require Import RecordSet.
Import RecordSetNotations.

Record trk := mkTrk {
  t_pos_new : option pos;   t_score_new : score;
  t_pos_cur : option pos;   t_score_cur : score;
  t_pos_best : option pos;  t_score_best : score;
  t_valid : list (option pos * score);      (* positions_valid zipped with scores_valid *)
  t_nth_trial : Z;
  t_nth_init : Z
}.
#[export] Instance eta_trk : Settable trk :=
  settable! mkTrk <t_pos_new; t_score_new; t_pos_cur; t_score_cur; t_pos_best; t_score_best; t_valid; t_nth_trial; t_nth_init>.

Definition trk_init : trk := mkTrk None SNInf None SNInf None SNInf [] 0 0.

(* the track_new_pos decorator: pos_new := returned position; nth_init += 1 *)
Definition track_new_pos (t : trk) (p : pos) : trk := t <| t_pos_new := Some p |> <| t_nth_init ::= Z.succ |>.

(* the score_new setter: only finite scores enter the valid lists, paired with the CURRENT pos_new *)
Definition set_score_new (t : trk) (s : score) : trk :=
  let t := t <| t_score_new := s |> in
  if is_finite s then t <| t_valid ::= (fun l => l ++ [(t_pos_new t, s)]) |> else t.

(* the track_new_score decorator around a body *)
Definition track_new_score (body : trk -> score -> res trk) (t : trk) (s : score) : res trk :=
  do t1 <- body (set_score_new t s) s; Ok (t1 <| t_nth_trial ::= Z.succ |>).

Definition eval2current (t : trk) (p : option pos) (s : score) : trk :=
  if sgt s (t_score_cur t) then t <| t_score_cur := s |> <| t_pos_cur := p |> else t.
Definition eval2best (t : trk) (p : option pos) (s : score) : trk :=
  if sgt s (t_score_best t) then t <| t_score_best := s |> <| t_pos_best := p |> else t.
Definition new2current (t : trk) : trk := t <| t_score_cur := t_score_new t |> <| t_pos_cur := t_pos_new t |>.
Definition evaluate_current2best (t : trk) : trk :=
  if sgt (t_score_cur t) (t_score_best t) then t <| t_score_best := t_score_cur t |> <| t_pos_best := t_pos_cur t |> else t.

(* CoreOptimizer.evaluate_init (body) *)
Definition evaluate_init_body (t : trk) (s : score) : res trk :=
  let t := match t_pos_best t with None => t <| t_pos_best := t_pos_new t |> <| t_score_best := s |> | Some _ => t end in
  let t := match t_pos_cur t with None => t <| t_pos_cur := t_pos_new t |> <| t_score_cur := s |> | Some _ => t end in
  Ok t.
Definition evaluate_init := track_new_score evaluate_init_body.

(* BaseOptimizer.evaluate *)
Definition base_evaluate (t : trk) (s : score) : trk :=
  match t_pos_best t with
  | None => t <| t_pos_best := t_pos_new t |> <| t_pos_cur := t_pos_new t |> <| t_score_best := s |> <| t_score_cur := s |>
  | Some _ => t
  end.

(* last index of the maximum among finite scores (max_list_idx) *)
Definition scores_of (l : list (option pos * score)) : list Z :=
  map (fun ps => match snd ps with SFin z => z | _ => 0 end) l.

(* HillClimbingOptimizer.evaluate (body) *)
Definition hc_evaluate_body (n_neighbours : Z) (t : trk) (s : score) : res trk :=
  let t := base_evaluate t s in
  match t_valid t with
  | [] => Ok t
  | _ =>
    if n_neighbours =? 0 then Err ZeroDivisionError else
    if t_nth_trial t mod n_neighbours =? 0 then
      let recent := last_n (Z.to_nat n_neighbours) (t_valid t) in
      do idx <- argmax_last (scores_of recent);
      match nth_error recent idx with
      | Some (p, sc) => Ok (eval2best (eval2current t p sc) p sc)
      | None => Err IndexError
      end
    else Ok t
  end.
Definition hc_evaluate (n : Z) := track_new_score (hc_evaluate_body n).

(* RandomSearchOptimizer.evaluate: tracked BaseOptimizer.evaluate *)
Definition base_evaluate_tracked := track_new_score (fun t s => Ok (base_evaluate t s)).

(* Spiral.evaluate: tracked `_new2current(); _evaluate_current2best()` *)
Definition spiral_evaluate := track_new_score (fun t s => Ok (evaluate_current2best (new2current t))).
