(* PyPrims.v — the Python / numpy primitives the source translator (harness/translate_core.py) emits calls to.
   Hand-written and trusted: each is the documented CPython 3.12 / numpy behaviour on the value types of the
   model (scores = floats incl. -inf/+inf/NaN, Z = int, lists).  No proofs here. *)
Require Import Base.

(* a % b on ints: ZeroDivisionError for b = 0, result has the sign of the divisor (= Z.modulo) *)
Definition py_mod (a b : Z) : res Z := if b =? 0 then Err ZeroDivisionError else Ok (a mod b).

(* l[-n:] for an int n: n = 0 gives the whole list (-0 = 0), n > 0 the last n elements (the whole list if shorter),
   n < 0 is l[|n|:] *)
Definition py_slice_last {A} (n : Z) (l : list A) : list A :=
  if n =? 0 then l else if 0 <? n then last_n (Z.to_nat n) l else skipn (Z.to_nat (- n)) l.

(* max(list of floats): keeps the first element, replaces it when `item > max` (NaN never replaces nor is replaced);
   ValueError on the empty list *)
Fixpoint py_max_aux (m : score) (l : list score) : score :=
  match l with [] => m | x :: tl => py_max_aux (if sgt x m then x else m) tl end.
Definition py_max (l : list score) : res score :=
  match l with [] => Err ValueError | x :: tl => Ok (py_max_aux x tl) end.

(* [i for i, j in enumerate(l) if j == m] *)
Fixpoint py_indices_eq (m : score) (i : Z) (l : list score) : list Z :=
  match l with [] => [] | x :: tl => if seqb x m then i :: py_indices_eq m (i + 1) tl else py_indices_eq m (i + 1) tl end.

(* l[i] for an int i (negative wraps once) *)
Definition py_getitem {A} (l : list A) (i : Z) : res A := nth_py l i.

(* l[-1:][0] : the last element, IndexError if empty *)
Fixpoint last_dflt {A} (l : list A) (d : option A) : option A :=
  match l with [] => d | x :: tl => last_dflt tl (Some x) end.
Definition py_last {A} (l : list A) : res A :=
  match last_dflt l None with Some x => Ok x | None => Err IndexError end.

(* hill_climbing_optimizer.max_list_idx — its source is pinned by the translator (AST dump compared), this is its
   transcription: max_item = max(list_); idxs = [i for i,j in enumerate(list_) if j == max_item]; idxs[-1:][0] *)
Definition py_max_list_idx (l : list score) : res Z :=
  do m <- py_max l; py_last (py_indices_eq m 0 l).

(* ~np.isinf(x), ~np.isnan(x) on a float *)
Definition s_isinf (s : score) : bool := match s with SPInf | SNInf => true | _ => false end.
Definition s_isnan (s : score) : bool := is_nan s.

Definition py_is_none {A} (o : option A) : bool := match o with None => true | Some _ => false end.
