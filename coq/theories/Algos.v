(* Algos.v — the single-solution optimizers built from move_climb / move_random and the tracker:
   HillClimbing, StochasticHillClimbing, SimulatedAnnealing, RepulsingHillClimbing,
   RandomRestartHillClimbing, RandomAnnealing, RandomSearch — as instances of the driver's abstract
   optimizer.  The random tape is part of the optimizer's state. *)
Require Import Base Converter Driver CoreOpt Tracker.
From RecordUpdate Require Import RecordSet.
Import RecordSetNotations.

Inductive algo_kind := KHill | KStochastic | KAnnealing | KRepulsing | KRestart | KRandAnneal | KRandomSearch
                    | KSpiral.   (* pop_opt/_spiral.py: a hill climber whose evaluate is new2current + current2best *)

Record algo_cfg := mkAlgoCfg {
  a_sp : space;
  a_cons : values -> bool;
  a_kind : algo_kind;
  a_rrp : Z * Z;                 (* rand_rest_p as a dyadic m * 2^e *)
  a_nn : Z;                      (* n_neighbours *)
  a_restart : Z;                 (* n_iter_restart *)
  a_fuel : nat                   (* bound on rejection-loop iterations per step (a modelling device) *)
}.

Record algo_state := mkAlgoState { h_trk : trk; h_inits : list pos; h_tape : tape; h_ccalls : Z (* constraint calls of the last step *) }.
#[export] Instance eta_algo_state : Settable algo_state := settable! mkAlgoState <h_trk; h_inits; h_tape; h_ccalls>.

Section Algo.
  Variable c : algo_cfg.
  Let sp := a_sp c.
  Let cons := a_cons c.
  Let fuel := a_fuel c.

  Definition climb (t : tape) := move_climb sp cons fuel t 0.
  Definition rnd (t : tape) := move_random sp cons fuel t 0.

  (* the position-producing part of iterate, before the track_new_pos decorator *)
  Definition iterate_move (st : algo_state) : res (pos * tape * Z) :=
    let t := h_tape st in
    match a_kind c with
    | KHill | KStochastic | KAnnealing | KRandAnneal | KSpiral =>
        random_iteration sp cons (fst (a_rrp c)) (snd (a_rrp c)) fuel t climb
    | KRepulsing => climb t
    | KRestart =>
        let tr := t_nth_trial (h_trk st) in
        if a_restart c =? 0 then Err ZeroDivisionError else
        random_iteration sp cons (fst (a_rrp c)) (snd (a_rrp c)) fuel t
          (fun t' => if negb (tr =? 0) && (tr mod a_restart c =? 0) then rnd t' else climb t')
    | KRandomSearch => rnd t
    end.

  Definition algo_iterate (st : algo_state) : res (algo_state * pos) :=
    do r <- iterate_move st;
    let '(p, t', n) := r in
    Ok (st <| h_trk := track_new_pos (h_trk st) p |> <| h_tape := t' |> <| h_ccalls := n |>, p).

  Definition algo_init_pos (st : algo_state) : res (algo_state * pos) :=
    do p <- nth_nowrap (h_inits st) (t_nth_init (h_trk st));
    Ok (st <| h_trk := track_new_pos (h_trk st) p |> <| h_ccalls := 0 |>, p).

  (* `p_accept >= random()` with p_accept an oracle value (exp of floats) *)
  Definition accept (p : xreal) (um ue : Z) : bool :=
    match p with
    | XF pm pe => negb (dyadic_gt um ue pm pe)
    | XPInf => true
    | XNInf | XNaN => false
    end.

  (* StochasticHillClimbing._transition (tracked): draws = [p_accept oracle; random()] *)
  Definition transition_body (t : tape) (k : trk) (s : score) : res (trk * tape) :=
    match t with
    | d :: DF um ue :: t' => do p <- xreal_of_draw d; Ok (if accept p um ue then new2current k else k, t')
    | _ => Err OutOfTape
    end.

  Definition algo_evaluate (st : algo_state) (s : score) : res algo_state :=
    let k := h_trk st in
    match a_kind c with
    | KHill | KRestart | KRandAnneal | KRepulsing =>
        do k' <- hc_evaluate (a_nn c) k s; Ok (st <| h_trk := k' |>)
    | KStochastic | KAnnealing =>
        if sle s (t_score_cur k) then
          let k1 := set_score_new k s in
          do kt <- transition_body (h_tape st) k1 s;
          Ok (st <| h_trk := (fst kt) <| t_nth_trial ::= Z.succ |> |> <| h_tape := snd kt |>)
        else do k' <- hc_evaluate (a_nn c) k s; Ok (st <| h_trk := k' |>)
    | KRandomSearch => do k' <- base_evaluate_tracked k s; Ok (st <| h_trk := k' |>)
    | KSpiral => do k' <- spiral_evaluate k s; Ok (st <| h_trk := k' |>)
    end.

  Definition algo_evaluate_init (st : algo_state) (s : score) : res algo_state :=
    do k' <- evaluate_init (h_trk st) s; Ok (st <| h_trk := k' |>).

  Definition algo_optimizer : optimizer :=
    {| ost := algo_state;
       o_n_inits := fun st => zlen (h_inits st);
       o_init_pos := algo_init_pos;
       o_iterate := algo_iterate;
       o_eval_init := algo_evaluate_init;
       o_evaluate := algo_evaluate;
       o_finish_init := fun st => Ok st |}.
End Algo.
