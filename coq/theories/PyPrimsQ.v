(* PyPrimsQ.v — further Python / numpy primitives the source translators (harness/pytrans.py) emit calls to.
   Finite Python floats are exact rationals here (Q): the translated arithmetic is the real-number reading of the
   float expression; the correspondence K-units run the code on dyadic inputs, where float arithmetic is exact.
   Hand-written and trusted, no proofs here. *)
Require Import Base PyPrims.
From Coq Require Export QArith Qabs.
Open Scope Z_scope.

Definition qltb (a b : Q) : bool := negb (Qle_bool b a).

(* max(list of finite floats): ValueError on the empty list *)
Fixpoint py_max_q_aux (m : Q) (l : list Q) : Q :=
  match l with [] => m | x :: tl => py_max_q_aux (if qltb m x then x else m) tl end.
Definition py_max_q (l : list Q) : res Q :=
  match l with [] => Err ValueError | x :: tl => Ok (py_max_q_aux x tl) end.

(* np.argmax: index of the first maximum; ValueError on the empty array *)
Fixpoint np_argmax_q_aux (best : Q) (bi i : Z) (l : list Q) : Z :=
  match l with
  | [] => bi
  | x :: tl => if qltb best x then np_argmax_q_aux x i (i + 1) tl else np_argmax_q_aux best bi (i + 1) tl
  end.
Definition np_argmax_q (l : list Q) : res Z :=
  match l with [] => Err ValueError | x :: tl => Ok (np_argmax_q_aux x 0 1 tl) end.

(* a / b on python floats: ZeroDivisionError for b == 0 *)
Definition py_qdiv (a b : Q) : res Q := if Qeq_bool b 0 then Err ZeroDivisionError else Ok (a / b)%Q.

(* a // b on ints *)
Definition py_floordiv (a b : Z) : res Z := if b =? 0 then Err ZeroDivisionError else Ok (a / b).

(* a number is required but the value may be None: TypeError (`'<' not supported between ... and 'NoneType'`) *)
Definition py_unopt {A} (o : option A) : res A := match o with Some x => Ok x | None => Err TypeError end.

(* d["key"] on a dictionary modelled as a record of optional keys *)
Definition py_dict_get {A} (o : option A) : res A := match o with Some x => Ok x | None => Err KeyError end.

(* truth value of `None | number` *)
Definition py_truthy_optZ (o : option Z) : bool := match o with Some z => negb (z =? 0) | None => false end.
Definition py_truthy_optQ (o : option Q) : bool := match o with Some q => negb (Qeq_bool q 0) | None => false end.
(* truth value of `None | dict` *)
Definition py_truthy_optrec {A} (nonempty : A -> bool) (o : option A) : bool :=
  match o with Some d => nonempty d | None => false end.
Definition py_is_nil {A} (l : list A) : bool := match l with [] => true | _ => false end.

(* l[:n] and l[n:] for an int n (a negative bound counts from the end, clamped) *)
Definition py_norm_bound {A} (n : Z) (l : list A) : nat :=
  Z.to_nat (if n <? 0 then Z.max 0 (zlen l + n) else n).
Definition py_slice_to {A} (n : Z) (l : list A) : list A := firstn (py_norm_bound n l) l.
Definition py_slice_from {A} (n : Z) (l : list A) : list A := skipn (py_norm_bound n l) l.

(* a score list handed to code that does finite float arithmetic (C13 quantifies over finite scores): the model
   does not define the result for a non-finite entry *)
Fixpoint py_finite_list (l : list score) : res (list Q) :=
  match l with
  | [] => Ok []
  | SFin z :: tl => do r <- py_finite_list tl; Ok (inject_Z z :: r)
  | _ :: _ => Err Unspecified
  end.

(* ---------- loops ---------- *)
(* range(n) *)
Definition py_range (n : Z) : list Z := map Z.of_nat (seq 0 (Z.to_nat n)).

(* for x in l: body   (the loop-carried variables are the state) *)
Fixpoint py_for {S A} (body : S -> A -> res S) (l : list A) (s : S) : res S :=
  match l with [] => Ok s | x :: tl => do s1 <- body s x; py_for body tl s1 end.

(* for x in l: body; if c: break *)
Fixpoint py_for_break {S A} (body : S -> A -> res (S * bool)) (l : list A) (s : S) : res S :=
  match l with
  | [] => Ok s
  | x :: tl => do r <- body s x; if snd r then Ok (fst r) else py_for_break body tl (fst r)
  end.

(* while c: body   -- fuel is a modelling device; running out of it is Err OutOfFuel, never a normal value *)
Fixpoint py_while {S} (fuel : nat) (c : S -> res bool) (body : S -> res S) (s : S) : res S :=
  match fuel with
  | O => Err OutOfFuel
  | Datatypes.S f => do b <- c s; if b then (do s1 <- body s; py_while f c body s1) else Ok s
  end.

(* while True: body   where body may `return r` (inr r) or fall through to the next round (inl state) *)
Fixpoint py_while_ret {S R} (fuel : nat) (body : S -> res (S + R)) (s : S) : res R :=
  match fuel with
  | O => Err OutOfFuel
  | Datatypes.S f => do x <- body s; match x with inl s1 => py_while_ret f body s1 | inr r => Ok r end
  end.

(* np.prod of an int list *)
Definition zprod_l (l : list Z) : Z := fold_right Z.mul 1 l.

(* int(a / b) for ints a, b: float true division, then truncation toward zero.  Exact for |a|, |b| < 2**53 (the model
   does not represent float rounding above that) *)
Definition py_int_truediv (a b : Z) : res Z := if b =? 0 then Err ZeroDivisionError else Ok (Z.quot a b).
