(* Rng.v — utils.set_random_seed and the seeding discipline of nested optimizers.  The two global
   generators (python `random`, `numpy.random`) are abstract: seeding and drawing are Section variables. *)
Require Import Base.

Section Rng.
  Variables (R NP : Type).                       (* states of the two global generators *)
  Variable seed_py : Z -> R.                     (* random.seed(z) *)
  Variable seed_np : Z -> NP.                    (* numpy.random.seed(z) *)
  Variable np_randint : NP -> Z * NP.            (* numpy.random.randint(0, 2**31 - 2) *)

  Definition gens := (R * NP)%type.

  (* set_random_seed(nth_process, random_state): returns (random_seed, new generator states) *)
  Definition set_random_seed (nth : option Z) (rs : option Z) (g : gens) : Z * gens :=
    let n := match nth with Some n => n | None => 0 end in
    let '(s, np1) := match rs with
                     | Some s => (s, snd g)
                     | None => np_randint (snd g)
                     end in
    (s + n, (seed_py (s + n), seed_np (s + n))).

  (* a nested optimizer (population member, Powell's inner hill climber) is built without random_state
     and without nth_process: it re-seeds both generators from the (already seeded) numpy generator *)
  Definition nested_seed (g : gens) : Z * gens := set_random_seed None None g.

  Fixpoint build_members (n : nat) (g : gens) : list Z * gens :=
    match n with
    | O => ([], g)
    | S k => let '(s, g1) := nested_seed g in let '(ss, g2) := build_members k g1 in (s :: ss, g2)
    end.

  (* the sequence of seeding events an optimizer's construction performs, as the harness observes it *)
  Inductive seed_ev := EvRandint (v : Z) | EvSeedPy (z : Z) | EvSeedNp (z : Z).

  (* a well-formed seeding trace: the first pair seeds both generators with the main seed; every later pair
     seeds both generators with the value numpy just drew (nested optimizers) or again with the main seed
     (the grid back-end is built with the same random_state) *)
  Fixpoint nested_ok (main : Z) (tr : list seed_ev) : bool :=
    match tr with
    | [] => true
    | EvRandint v :: EvSeedPy a :: EvSeedNp b :: tl => (a =? v) && (b =? v) && nested_ok main tl
    | EvSeedPy a :: EvSeedNp b :: tl => (a =? main) && (b =? main) && nested_ok main tl
    | _ => false
    end.
  (* helpers built WITH the main seed only (the grid back-end): no further draw may feed a seed *)
  Fixpoint main_only (main : Z) (tr : list seed_ev) : bool :=
    match tr with
    | [] => true
    | EvSeedPy a :: EvSeedNp b :: tl => (a =? main) && (b =? main) && main_only main tl
    | _ => false
    end.
  (* strict = the class has no nested optimizers that draw their own seed (everything but populations and Powell) *)
  Definition seeding_ok (strict : bool) (rs : option Z) (nth : option Z) (random_seed : Z) (tr : list seed_ev) : bool :=
    let n := match nth with Some n => n | None => 0 end in
    let rest main tl := if strict then main_only main tl else nested_ok main tl in
    match rs, tr with
    | Some s, EvSeedPy a :: EvSeedNp b :: tl => (a =? s + n) && (b =? s + n) && (random_seed =? s + n) && rest (s + n) tl
    | None, EvRandint v :: EvSeedPy a :: EvSeedNp b :: tl => (a =? v + n) && (b =? v + n) && (random_seed =? v + n) && rest (v + n) tl
    | _, _ => false
    end.
End Rng.
